# U-MP-READ, U-MP-DEPTH (parser side) (DESIGN 6): msgpack_parser::read_item type-byte dispatch, get_size, begin_array/begin_object
from core import FuncSpec, CopySpec, EnumSpec, Harness, INF
import common_specs as cs

P = 'include/jsoncons_ext/msgpack/msgpack_parser.hpp'
TY = 'include/jsoncons_ext/msgpack/msgpack_type.hpp'
AL = {'ec': '(*ec_p)', 'more_': '(self->more_)', 'cursor_mode_': '(self->cursor_mode_)', 'nesting_depth_': '(self->nesting_depth_)', 'max_nesting_depth_': '(self->max_nesting_depth_)'}
COMMON = [
    (r'jsoncons::msgpack::msgpack_type::(\w+)', r'msgpack_type_\1', 0, 80),
    (r'msgpack_errc::(\w+)', r'msgpack_errc_\1', 0, 60),
    (r'source_\.read\(', 'vx_source_read(', 0, 40),
    (r'binary::big_to_native<(u?)int(8|16|32|64)_t>\(', r'(\1int\2_t)big_to_native_u\2(', 0, 40),
    (r'binary::big_to_native<float>\(', 'big_to_native_f32(', 0, 1), (r'binary::big_to_native<double>\(', 'big_to_native_f64(', 0, 1),
]
READ_RULES = [
    (r'source_\.is_error\(\)', 'vx_src_error', 1),
    # timestamp 64 / 96: the nanosecond count is assembled with basic_bigint (not under contract): replaced by an event stub
    (r'bigint nano\(sec\);.*?visitor\.string_value\(text_buffer_, semantic_tag::epoch_nano, \*this, ec\);', 'vx_ev_timestamp_ns((int64_t)(sec), (uint64_t)(nsec));', 2),
    (r'visitor\.uint64_value\(([^,]+), semantic_tag::(\w+), \*this, ec\);', r'vx_ev_uint64(\1, semantic_tag_\2);', 6),
    (r'visitor\.int64_value\(([^;]+?), semantic_tag::(\w+), \*this, ec\);', r'vx_ev_int64(\1, semantic_tag_\2);', 5),
    (r'visitor\.double_value\(val, semantic_tag::none, \*this, ec\);', 'vx_ev_double((double)val);', 2),
    (r'visitor\.null_value\(semantic_tag::none, \*this, ec\);', 'vx_ev_simple(VX_EV_NULL);', 1),
    (r'visitor\.bool_value\(true, semantic_tag::none, \*this, ec\);', 'vx_ev_simple(VX_EV_TRUE);', 1),
    (r'visitor\.bool_value\(false, semantic_tag::none, \*this, ec\);', 'vx_ev_simple(VX_EV_FALSE);', 1),
    (r'visitor\.string_value\(jsoncons::string_view\(reinterpret_cast<const char\*>\(data\.data\(\)\),data\.size\(\)\),\s*semantic_tag::none, \*this, ec\);', 'vx_ev_string(vx_data_size);', 2),
    (r'visitor\.byte_string_value\(byte_string_view\(data\.data\(\),data\.size\(\)\),\s*semantic_tag::none,\s*\*this,\s*ec\);', 'vx_ev_bytes(vx_data_size, -1);', 1),
    (r'visitor\.byte_string_value\(byte_string_view\(data\.data\(\),data\.size\(\)\),\s*static_cast<uint8_t>\(ext_type\),\s*\*this,\s*ec\);', 'vx_ev_bytes(vx_data_size, (uint8_t)(ext_type));', 1),
    (r'auto data = source_\.read_span\(len, bytes_buffer_\);', 'size_t vx_data_size = vx_source_read_span(len);', 4),
    (r'data\.size\(\)', 'vx_data_size', 4, 8),
    (r'auto result = unicode_traits::validate\(data\.data\(\), vx_data_size\);', 'bool vx_ok = vx_validate_utf8(vx_data_size);', 2),
    (r'result\.ec != unicode_traits::unicode_errc\(\)', '!vx_ok', 2),
    (r'begin_object\(visitor,\s*type,\s*ec\);', 'vx_begin_object(type);', 2),
    (r'begin_array\(visitor,\s*type,\s*ec\);', 'vx_begin_array(type);', 2),
    (r'get_size\(type,\s*ec\)', 'get_size(self, type, ec_p)', 3),
    (r'\bconst size_t len = type & 0x1f;', 'const size_t len = type & 0x1f;', 1),
    (r'true;;', 'true;', 0, 1),
]
AV = '(vx_src_n - __CPROVER_old(vx_src_pos))'
T = 'vx_src_at(__CPROVER_old(vx_src_pos))'
P0 = '__CPROVER_old(vx_src_pos)'
NOEV = '(vx_events == 0)'
ONE = lambda kind: '(vx_events == 1 && vx_ev_kind == %s)' % kind
READ_CONTRACT = [
    ('requires', 'vx_src_pos <= vx_src_n && vx_src_n <= VX_SRC_CAP - 12 && *ec_p == 0 && vx_events == 0 && self->more_'),
    ('assigns', 'vx_src_pos, *ec_p, self->more_, vx_events, vx_ev_kind, vx_ev_u, vx_ev_i, vx_ev_d, vx_ev_len, vx_ev_tag, vx_ev_type, vx_dec_signed, vx_dec_u, vx_dec_i'),
    ('ensures', '[C07][C05] a source error or empty input is reported, nothing is delivered',
     '(vx_src_error ==> (*ec_p == msgpack_errc_source_error && %s)) && ((!vx_src_error && %s == 0) ==> (*ec_p == msgpack_errc_unexpected_eof && %s))' % (NOEV, AV, NOEV)),
    ('ensures', '[C07][C06] int format family (fixint, uint 8/16/32/64, int 8/16/32/64): exactly one integer event with the value the MessagePack specification assigns, consuming exactly the item',
     '(!vx_src_error && %s >= 1 && spec_mp_int_decode(&vx_src[%s], %s, &vx_dec_signed, &vx_dec_u, &vx_dec_i) > 0) ==> (*ec_p == 0 && vx_events == 1 && vx_src_pos == %s + (size_t)spec_mp_int_decode(&vx_src[%s], %s, &vx_dec_signed, &vx_dec_u, &vx_dec_i) && (vx_dec_signed ? (vx_ev_kind == VX_EV_INT64 && vx_ev_i == vx_dec_i) : (vx_ev_kind == VX_EV_UINT64 && vx_ev_u == vx_dec_u)) && vx_ev_tag == semantic_tag_none)'
     % (AV, P0, AV, P0, P0, AV)),
    ('ensures', '[C07][C03] a truncated integer item is unexpected_eof, nothing is delivered',
     '(!vx_src_error && %s >= 1 && spec_mp_is_int_type(%s) && spec_mp_int_decode(&vx_src[%s], %s, &vx_dec_signed, &vx_dec_u, &vx_dec_i) == 0) ==> (*ec_p == msgpack_errc_unexpected_eof && %s)' % (AV, T, P0, AV, NOEV)),
    ('ensures', '[C07] fixmap 0x80-0x8f, map 16 and map 32 open a map (and nothing else does)',
     '(!vx_src_error && %s >= 1) ==> ((%s && vx_ev_type == %s) == ((%s >= 0x80 && %s <= 0x8f) || %s == 0xde || %s == 0xdf))' % (AV, ONE('VX_EV_BEGIN_OBJECT'), T, T, T, T, T)),
    ('ensures', '[C07] fixarray 0x90-0x9f, array 16 and array 32 open an array (and nothing else does)',
     '(!vx_src_error && %s >= 1) ==> ((%s && vx_ev_type == %s) == ((%s >= 0x90 && %s <= 0x9f) || %s == 0xdc || %s == 0xdd))' % (AV, ONE('VX_EV_BEGIN_ARRAY'), T, T, T, T, T)),
    ('ensures', '[C07] nil, false, true', '(!vx_src_error && %s >= 1) ==> ((%s == 0xc0) == %s) && ((%s == 0xc2) == %s) && ((%s == 0xc3) == %s)'
     % (AV, T, ONE('VX_EV_NULL'), T, ONE('VX_EV_FALSE'), T, ONE('VX_EV_TRUE'))),
    ('ensures', '[C07] 0xc1 is never used: unknown_type', '(!vx_src_error && %s >= 1 && %s == 0xc1) ==> (*ec_p == msgpack_errc_unknown_type && %s)' % (AV, T, NOEV)),
    ('ensures', '[C07][C06] float 32 / float 64: one double event carrying the big-endian IEEE 754 value (float widened exactly)',
     '(!vx_src_error && %s >= 1 && (%s == 0xca || %s == 0xcb)) ==> ((%s >= (%s == 0xca ? 5 : 9)) ? (%s && *ec_p == 0 && (%s == 0xcb ? vx_bits64(vx_ev_d) == vx_src_be(%s + 1, 8) : vx_bits32((float)vx_ev_d) == (uint32_t)vx_src_be(%s + 1, 4) || vx_ev_d != vx_ev_d)) : (*ec_p == msgpack_errc_unexpected_eof && %s))'
     % (AV, T, T, AV, T, ONE('VX_EV_DOUBLE'), T, P0, P0, NOEV)),
    ('ensures', '[C07] str family (fixstr, str 8/16/32): the declared number of bytes is read; complete and valid UTF-8 -> one string event of that length; incomplete -> unexpected_eof; invalid UTF-8 -> invalid_utf8_text_string',
     '(!vx_src_error && %s >= 1 && spec_mp_str_len(&vx_src[%s], %s) >= 0) ==> ((vx_span_avail >= (uint64_t)spec_mp_str_len(&vx_src[%s], %s)) ? (vx_utf8_ok ? (%s && vx_ev_len == (uint64_t)spec_mp_str_len(&vx_src[%s], %s) && *ec_p == 0) : (*ec_p == msgpack_errc_invalid_utf8_text_string && %s)) : (*ec_p == msgpack_errc_unexpected_eof && %s))'
     % (AV, P0, AV, P0, AV, ONE('VX_EV_STRING'), P0, AV, NOEV, NOEV)),
    ('ensures', '[C07] bin family (bin 8/16/32): one byte-string event of the declared length, or unexpected_eof',
     '(!vx_src_error && %s >= 1 && spec_mp_bin_len(&vx_src[%s], %s) >= 0) ==> ((vx_span_avail >= (uint64_t)spec_mp_bin_len(&vx_src[%s], %s)) ? (%s && vx_ev_len == (uint64_t)spec_mp_bin_len(&vx_src[%s], %s) && vx_ev_tag == -1 && *ec_p == 0) : (*ec_p == msgpack_errc_unexpected_eof && %s))'
     % (AV, P0, AV, P0, AV, ONE('VX_EV_BYTES'), P0, AV, NOEV)),
    ('ensures', '[C07] an error never comes with a value event', '*ec_p != 0 ==> (vx_events == 0 && self->more_ == 0)'),
    ('ensures', '[C05] the cursor stays within the input', 'vx_src_pos <= vx_src_n'),
]
BEGIN = lambda kind, ev: [
    ('requires', 'vx_src_pos <= vx_src_n && vx_src_n <= VX_SRC_CAP - 12 && *ec_p == 0 && vx_events == 0 && self->more_ && vx_pushes == 0'),
    ('requires', 'self->nesting_depth_ >= 0 && self->nesting_depth_ <= self->max_nesting_depth_ && self->max_nesting_depth_ < INT_MAX'),
    ('assigns', 'vx_src_pos, *ec_p, self->more_, self->nesting_depth_, vx_events, vx_ev_kind, vx_ev_len, vx_ev_tag, vx_pushes, vx_depth, vx_top'),
    ('ensures', '[C10] a container at depth == limit is refused with max_nesting_depth_exceeded before any visitor event or push',
     '__CPROVER_old(self->nesting_depth_) == self->max_nesting_depth_ ==> (*ec_p == msgpack_errc_max_nesting_depth_exceeded && vx_events == 0 && vx_pushes == 0 && !self->more_)'),
    ('ensures', '[C10] below the limit the container is accepted when its header is complete (the limit itself is reachable)',
     '(__CPROVER_old(self->nesting_depth_) < self->max_nesting_depth_ && spec_mp_container_len(type, &vx_src[__CPROVER_old(vx_src_pos)], vx_src_n - __CPROVER_old(vx_src_pos)) >= 0) ==> (*ec_p == 0 && self->nesting_depth_ == __CPROVER_old(self->nesting_depth_) + 1 && vx_pushes == 1 && vx_events == 1 && vx_ev_kind == %s && vx_ev_len == (uint64_t)spec_mp_container_len(type, &vx_src[__CPROVER_old(vx_src_pos)], vx_src_n - __CPROVER_old(vx_src_pos)) && vx_top.length_ == vx_ev_len)' % ev),
    ('ensures', '[C07] a truncated length is unexpected_eof, nothing announced',
     '(__CPROVER_old(self->nesting_depth_) < self->max_nesting_depth_ && spec_mp_container_len(type, &vx_src[__CPROVER_old(vx_src_pos)], vx_src_n - __CPROVER_old(vx_src_pos)) == -1) ==> (*ec_p == msgpack_errc_unexpected_eof && vx_events == 0 && vx_pushes == 0)'),
]
BEGIN_RULES = [
    (r'get_size\(type,\s*ec\)', 'get_size(self, type, ec_p)', 1),
    (r'state_stack_\.emplace_back\(parse_mode::(\w+),\s*length\);', r'VX_STACK_EMPLACE(parse_mode_\1, length);', 1),
    (r'visitor\.begin_(array|object)\(length, semantic_tag::none, \*this, ec\);', r'vx_ev_begin(VX_EV_BEGIN_\1, length);', 1),
]
SPECS = [
    EnumSpec('msgpack_errc', 'include/jsoncons_ext/msgpack/msgpack_error.hpp'),
    EnumSpec('semantic_tag', 'include/jsoncons/semantic_tag.hpp'),
    EnumSpec('parse_mode', P),
    CopySpec('msgpack_types', TY, r'JSONCONS_INLINE_CONSTEXPR uint8_t positive_fixint_base_type', r'negative_fixint_base_type = 0xe0;', include_end=True,
             rules=[(r'JSONCONS_INLINE_CONSTEXPR uint8_t (\w+) = ([^;]+);', r'enum { msgpack_type_\1 = \2 };', 30, 50)]),
    FuncSpec('get_size', P, r'std::size_t get_size\(uint8_t type, std::error_code& ec\)', count=1,
             csig='size_t get_size(struct msgpack_parser* self, uint8_t type, int* ec_p)', aliases=AL, rules=COMMON),
    FuncSpec('read_item', P, r'void read_item\(generic_visitor& visitor, std::error_code& ec\)', count=1,
             csig='void read_item(struct msgpack_parser* self, int* ec_p)', contract=READ_CONTRACT, aliases=AL, rules=READ_RULES + COMMON),
    FuncSpec('begin_array', P, r'void begin_array\(generic_visitor& visitor, uint8_t type, std::error_code& ec\)', count=1,
             csig='void begin_array(struct msgpack_parser* self, uint8_t type, int* ec_p)', contract=BEGIN('array', 'VX_EV_BEGIN_array'), aliases=AL, rules=BEGIN_RULES + COMMON),
    FuncSpec('begin_object', P, r'void begin_object\(generic_visitor& visitor, uint8_t type, std::error_code& ec\)', count=1,
             csig='void begin_object(struct msgpack_parser* self, uint8_t type, int* ec_p)', contract=BEGIN('object', 'VX_EV_BEGIN_object'), aliases=AL, rules=BEGIN_RULES + COMMON),
]
GROUPS = {'binary': cs.binary_group(widths=(8, 16, 32, 64)) + [cs.byte_swap_float(32), cs.byte_swap_float(64), cs.big_to_native_float(32), cs.big_to_native_float(64)]}
SITE_CHECKS = [
    {'file': P, 'pattern': r'\+\+nesting_depth_ > max_nesting_depth_', 'count': 2, 'props': ['C10'],
     'what': 'both container-opening functions of the MessagePack parser (begin_array, begin_object) carry the depth guard'},
    {'file': P, 'pattern': r'state_stack_\.emplace_back\(parse_mode::(array|map_key)', 'count': 2, 'props': ['C10'], 'what': 'containers are pushed only in the two guarded functions'},
]
HARNESSES = [
] + [Harness('read_item_%02x_%02x' % (lo, hi), 'h_read_item', enforce='read_item', method='LF', unwind=14, props=['C07', 'C06', 'C03'], timeout=1800,
             defines=['VX_T_LO=%d' % lo, 'VX_T_HI=%d' % hi],
             note='case split on the type byte: 0x%02x..0x%02x (the harnesses together cover every first byte, the empty input and a source error)' % (lo, hi))
     for lo, hi in ((0x00, 0x7f), (0x80, 0x9f), (0xa0, 0xbf), (0xc0, 0xc9), (0xca, 0xcb), (0xcc, 0xcf), (0xd0, 0xd3), (0xd4, 0xd8), (0xd9, 0xdb), (0xdc, 0xdf), (0xe0, 0xff))] + [
    Harness('read_item_empty', 'h_read_item', enforce='read_item', method='LF', unwind=14, props=['C07', 'C05'], timeout=900, defines=['VX_T_EMPTY=1'],
            note='empty input or source error'),
    Harness('begin_array', 'h_begin_array', enforce='begin_array', method='LF', unwind=14, props=['C10', 'C07']),
    Harness('begin_object', 'h_begin_object', enforce='begin_object', method='LF', unwind=14, props=['C10', 'C07']),
]
