# U-OJSON-BLOOM (C09): bloom_set / bloom_may_contain of ordered_json_object (insertion-ordered objects keep unique keys: a key that passed the
# filter as "new" is appended without the linear duplicate search, so a false negative of the filter creates a duplicate key)
from core import FuncSpec, Harness
O = 'include/jsoncons/ordered_json_object.hpp'
A = '(h & bloom_mask)'
B = '((h >> 10) & bloom_mask)'
SPECS = [
    FuncSpec('bloom_set', O, r'static void bloom_set\(uint8_t\* bloom, uint32_t h\)', count=1, csig='void bloom_set(uint8_t* bloom, uint32_t h)',
             contract=[('requires', 'bloom == vx_bloom && vx_byte < bloom_bytes && vx_bit < 8'), ('assigns', '__CPROVER_object_whole(vx_bloom)'),
                       ('ensures', '[C09] both probe bits of the key are set', '(vx_bloom[%s >> 3] >> (%s & 7)) & 1 && (vx_bloom[%s >> 3] >> (%s & 7)) & 1' % (A, A, B, B)),
                       ('ensures', '[C09] no bit of the filter is ever cleared (watched bit)', '((__CPROVER_old(vx_bloom[vx_byte]) >> vx_bit) & 1) ==> ((vx_bloom[vx_byte] >> vx_bit) & 1)')],
             rules=[(r'uint8_t\(1\)', '((uint8_t)1)', 2)]),
    FuncSpec('bloom_may_contain', O, r'static bool bloom_may_contain\(const uint8_t\* bloom, uint32_t h\)', count=1, csig='bool bloom_may_contain(const uint8_t* bloom, uint32_t h)',
             contract=[('requires', 'bloom == vx_bloom'), ('assigns', ''),
                       ('ensures', '[C09] a key is reported as possibly present exactly when both of its probe bits are set',
                        '(__CPROVER_return_value != 0) == ((((vx_bloom[%s >> 3] >> (%s & 7)) & 1) != 0) && (((vx_bloom[%s >> 3] >> (%s & 7)) & 1) != 0))' % (A, A, B, B))],
             rules=[(r'uint8_t\(1\)', '((uint8_t)1)', 2)]),
]
SITE_CHECKS = [
    {'file': O, 'pattern': r'if \(JSONCONS_LIKELY\(!bloom_may_contain\(bloom, h\)\)\)\s*\{[^{}]*bloom_set\(bloom, h\);', 'count': (3, 8), 'props': ['C09'],
     'what': 'every "key is new" decision of the bulk insertion paths is made by bloom_may_contain and followed by bloom_set of the same hash'},
]
HARNESSES = [
    Harness('bloom_set', 'h_set', enforce='bloom_set', method='LF', props=['C09']),
    Harness('bloom_may_contain', 'h_may_contain', enforce='bloom_may_contain', method='LF', props=['C09']),
    Harness('lemma_no_false_negative', 'h_no_false_negative', method='LF', props=['C09'], dfcc=False,
            note='lemma over the real extracted bodies: the filter has no false negatives under any insertion history'),
]
