#!/usr/bin/env python3
# regenerate /verif/MANIFEST.json from the units present (claimed properties = those with harnesses)
import os, sys, json
sys.path.insert(0, os.path.dirname(os.path.abspath(__file__)))
import core, units
meta = json.load(open(os.path.join(core.VERIF, 'vx', 'propmeta.json')))
claimed = {}
for un in units.all_units():
    mod = units.load_unit(un)
    for h in mod.HARNESSES:
        for p in h.props:
            claimed.setdefault(p, set()).add(un)
        claimed.setdefault('C05', set()).add(un)
checks, na = [], []
for i in range(1, 21):
    p = 'C%02d' % i
    m = meta[p]
    if p in claimed and not m.get('na'):
        checks.append({
            'property_id': p,
            'quick_cmd': 'bin/check %s --tier quick' % p,
            'thorough_cmd': 'bin/check %s --tier thorough' % p,
            'evidence_file': 'evidence/%s.json' % p,
            'replay_cmd_template': 'bin/check --replay {path}',
            'engine': 'vx-cbmc-contracts',
            'level_claimed': {'category': 'proof', 'text': m['level_text'], 'design_ref': m['design_ref']},
            'level_note': m['level_note'],
            'technique': m['technique'],
        })
    else:
        na.append({'property_id': p, 'reason': m.get('na') or 'no unit built yet for this property (see DESIGN.md section 7)'})
man = {
    'version': 1,
    'setup_cmd': 'python3 vx/selftest.py',
    'hooks': {'guard': 'JSONCONS_VERIF', 'enable': 'no hooks are needed: the extractor reads /repo/include as it is; the guard name is reserved',
              'baseline_off_cmd': 'cmake --build /repo/_build -j16 && ctest --test-dir /repo/_build -j8 --timeout 900',
              'source_commits': [], 'add_only': True},
    'engines': [{'name': 'vx-cbmc-contracts', 'path': 'vx/', 'serves_properties': [c['property_id'] for c in checks],
                 'kind_free_text': 'mechanical extraction of C-style functions from the jsoncons headers into C on every run + CBMC 6.11 code contracts (goto-instrument --dfcc, function and loop contracts) + native replay of counterexamples on the real C++ templates'}],
    'checks': checks,
    'notes': 'See DESIGN.md. Exit codes: 0 held, 1 VIOLATION, 2 CHECK-BROKEN (tool/extraction failure, never a violation).',
    'not_applicable': na,
}
json.dump(man, open(os.path.join(core.VERIF, 'MANIFEST.json'), 'w'), indent=1)
print('claimed:', [c['property_id'] for c in checks])
