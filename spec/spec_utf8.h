/* S-UTF8: Unicode 15 Table 3-7 "Well-Formed UTF-8 Byte Sequences" / RFC 3629 sections 3 and 4.
 * Not derived from jsoncons. */
#ifndef SPEC_UTF8_H
#define SPEC_UTF8_H
#include <stdint.h>
#include <stddef.h>
/* length announced by the first byte; 0 = not a legal first byte (80..C1, F5..FF) */
static inline int spec_utf8_len(uint8_t b0)
{
    if (b0 <= 0x7F) return 1;
    if (b0 >= 0xC2 && b0 <= 0xDF) return 2;
    if (b0 >= 0xE0 && b0 <= 0xEF) return 3;
    if (b0 >= 0xF0 && b0 <= 0xF4) return 4;
    return 0;
}
static inline int spec_utf8_cont(uint8_t b) { return b >= 0x80 && b <= 0xBF; }
/* Table 3-7, row by row; bytes beyond len are ignored */
static inline int spec_wf_utf8(uint8_t b0, uint8_t b1, uint8_t b2, uint8_t b3, int len)
{
    if (len == 1) return b0 <= 0x7F;
    if (len == 2) return b0 >= 0xC2 && b0 <= 0xDF && spec_utf8_cont(b1);
    if (len == 3) {
        if (b0 == 0xE0) return b1 >= 0xA0 && b1 <= 0xBF && spec_utf8_cont(b2);
        if (b0 >= 0xE1 && b0 <= 0xEC) return spec_utf8_cont(b1) && spec_utf8_cont(b2);
        if (b0 == 0xED) return b1 >= 0x80 && b1 <= 0x9F && spec_utf8_cont(b2);
        if (b0 >= 0xEE && b0 <= 0xEF) return spec_utf8_cont(b1) && spec_utf8_cont(b2);
        return 0;
    }
    if (len == 4) {
        if (b0 == 0xF0) return b1 >= 0x90 && b1 <= 0xBF && spec_utf8_cont(b2) && spec_utf8_cont(b3);
        if (b0 >= 0xF1 && b0 <= 0xF3) return spec_utf8_cont(b1) && spec_utf8_cont(b2) && spec_utf8_cont(b3);
        if (b0 == 0xF4) return b1 >= 0x80 && b1 <= 0x8F && spec_utf8_cont(b2) && spec_utf8_cont(b3);
        return 0;
    }
    return 0;
}
/* RFC 3629 section 3: scalar value of a well-formed sequence */
static inline uint32_t spec_utf8_scalar(uint8_t b0, uint8_t b1, uint8_t b2, uint8_t b3, int len)
{
    if (len == 1) return b0;
    if (len == 2) return ((uint32_t)(b0 & 0x1F) << 6) | (b1 & 0x3F);
    if (len == 3) return ((uint32_t)(b0 & 0x0F) << 12) | ((uint32_t)(b1 & 0x3F) << 6) | (b2 & 0x3F);
    return ((uint32_t)(b0 & 0x07) << 18) | ((uint32_t)(b1 & 0x3F) << 12) | ((uint32_t)(b2 & 0x3F) << 6) | (b3 & 0x3F);
}
/* RFC 3629 section 3: encoding of a Unicode scalar value (0..0x10FFFF without D800..DFFF); returns the length */
static inline int spec_utf8_encode(uint32_t cp, uint8_t out[4])
{
    if (cp < 0x80) { out[0] = (uint8_t)cp; return 1; }
    if (cp < 0x800) { out[0] = (uint8_t)(0xC0 | (cp >> 6)); out[1] = (uint8_t)(0x80 | (cp & 0x3F)); return 2; }
    if (cp < 0x10000) { out[0] = (uint8_t)(0xE0 | (cp >> 12)); out[1] = (uint8_t)(0x80 | ((cp >> 6) & 0x3F)); out[2] = (uint8_t)(0x80 | (cp & 0x3F)); return 3; }
    out[0] = (uint8_t)(0xF0 | (cp >> 18)); out[1] = (uint8_t)(0x80 | ((cp >> 12) & 0x3F)); out[2] = (uint8_t)(0x80 | ((cp >> 6) & 0x3F)); out[3] = (uint8_t)(0x80 | (cp & 0x3F));
    return 4;
}
static inline int spec_is_scalar(uint32_t cp) { return cp <= 0x10FFFF && !(cp >= 0xD800 && cp <= 0xDFFF); }
#endif
