# U-MERGEPATCH (C16): own level of apply_merge_patch_ and of from_diff against RFC 7386
from core import FuncSpec, CopySpec, EnumSpec, Harness
M = 'include/jsoncons_ext/mergepatch/mergepatch.hpp'
LOOP = '''__CPROVER_assigns(vx_i, vx_cur, vx_erases, vx_emplaces, vx_recursions, vx_rec_on_existing, vx_emplaced_null, vx_emplaced_copy, vx_order_bad)
  __CPROVER_loop_invariant(vx_i <= vx_n && !vx_order_bad && (vx_k >= vx_i ==> (vx_erases == 0 && vx_emplaces == 0 && vx_recursions == 0 && !vx_emplaced_null && !vx_emplaced_copy)) && (vx_k < vx_i ==> (%s)))
  __CPROVER_decreases(vx_n - vx_i)'''
# RFC 7386 for the watched member: null -> removed if it exists, nothing else; otherwise Target[Name] = MergePatch(Target[Name], Value): the old pair (if any) is replaced by one new pair
# whose value is the recursive result on the old value (or on "nothing", which the code represents by an empty object)
APPLY_W = ('(vx_null[vx_k] ? (vx_emplaces == 0 && vx_recursions == 0 && vx_erases == (vx_found[vx_k] ? 1 : 0)) '
           ': (vx_emplaces == 1 && vx_recursions == 1 && vx_rec_on_existing == (vx_found[vx_k] != 0) && vx_erases == (vx_found[vx_k] ? 1 : 0)))')
APPLY = [
    ('requires', 'vx_n <= 100000000 && vx_k < vx_n && __CPROVER_is_fresh(vx_null, vx_n * sizeof(bool)) && __CPROVER_is_fresh(vx_found, vx_n * sizeof(bool)) && vx_erases == 0 && vx_emplaces == 0 && vx_recursions == 0 && !vx_emplaced_null && !vx_emplaced_copy && !vx_order_bad && !vx_reset_target && !vx_returned_patch && !vx_returned_target'),
    ('assigns', 'vx_cur, vx_erases, vx_emplaces, vx_recursions, vx_rec_on_existing, vx_emplaced_null, vx_emplaced_copy, vx_order_bad, vx_reset_target, vx_returned_patch, vx_returned_target, vx_target_is_object'),
    ('ensures', '[C16] a patch that is not an object replaces the target: it is returned and nothing is edited', '!vx_patch_is_object ==> (vx_returned_patch && !vx_returned_target && vx_erases == 0 && vx_emplaces == 0 && !vx_reset_target)'),
    ('ensures', '[C16] an object patch: a target that is not an object is replaced by an empty object first; the (edited) target is returned', 'vx_patch_is_object ==> (vx_returned_target && !vx_returned_patch && vx_reset_target == !__CPROVER_old(vx_target_is_object))'),
    ('ensures', '[C16] for every Name/Value pair of the patch (watched: any): a null Value removes the pair with that Name if it exists and adds nothing; any other Value makes Target[Name] the merge of the old Target[Name] (or of nothing) with Value - the old pair, if any, is removed before the new one is added',
     'vx_patch_is_object ==> (!vx_order_bad && %s)' % APPLY_W),
]
A_RULES = [
    (r'patch\.is_object\(\)', 'vx_patch_is_object', 1), (r'!target\.is_object\(\)', '!vx_target_is_object', 1), (r'target = Json\(json_object_arg\);', 'vx_reset_target = true; vx_target_is_object = true;', 1),
    (r'for \(auto& member : patch\.object_range\(\)\)\s*\{', 'for (size_t vx_i = 0; vx_i < vx_n; ++vx_i) { vx_cur = vx_i;', 1),
    (r'auto it = target\.find\(member\.key\(\)\);\s*if \(it != target\.object_range\(\)\.end\(\)\)', 'if (vx_found[vx_i])', 1),
    (r'Json item = \(\*it\)\.value\(\);', 'bool vx_item_existing = true;', 1), (r'target\.erase\(it\);', 'vx_erase();', 0, 2), (r'member\.value\(\)\.is_null\(\)', 'vx_null[vx_i]', 0, 3),
    (r'target\.try_emplace\(member\.key\(\), apply_merge_patch_\(item, member\.value\(\)\)\);', 'vx_emplace_merged(vx_item_existing);', 1, 3),
    (r'\bitem\.is_object\(\)', 'nondet_bool()', 0, 2), (r'target\.try_emplace\(member\.key\(\), member\.value\(\)\);', 'vx_emplace_asis();', 0, 2),
    (r'Json item\(json_object_arg\);', 'bool vx_item_existing = false;', 1), (r'return target;', 'vx_returned_target = true; return;', 1), (r'return patch;', 'vx_returned_patch = true; return;', 1),
]
# from_diff: for each member of source: absent in target -> null; present and different -> nested diff; present and equal -> nothing.  For each member of target: absent in source -> copied.
DIFF1_W = '(vx_erases == 0) && (!vx_found[vx_k] ? (vx_emplaces == 1 && vx_emplaced_null && vx_recursions == 0) : vx_equal[vx_k] ? (vx_emplaces == 0 && vx_recursions == 0) : (vx_emplaces == 1 && vx_recursions == 1 && !vx_emplaced_null))'
DIFF2_W = '(vx_erases == 0) && (!vx_found[vx_k] ? (vx_emplaces == 1 && vx_emplaced_copy) : vx_emplaces == 0)'
def DIFF(w, what):
    return [('requires', 'vx_n <= 100000000 && vx_k < vx_n && __CPROVER_is_fresh(vx_equal, vx_n * sizeof(bool)) && __CPROVER_is_fresh(vx_found, vx_n * sizeof(bool)) && vx_erases == 0 && vx_emplaces == 0 && vx_recursions == 0 && !vx_emplaced_null && !vx_emplaced_copy && !vx_order_bad'),
            ('assigns', 'vx_cur, vx_erases, vx_emplaces, vx_recursions, vx_rec_on_existing, vx_emplaced_null, vx_emplaced_copy, vx_order_bad'),
            ('ensures', '[C16] ' + what, '%s && vx_erases == 0' % w)]
D_RULES1 = [
    (r'for \(const auto& member : source\.object_range\(\)\)\s*\{', 'for (size_t vx_i = 0; vx_i < vx_n; ++vx_i) { vx_cur = vx_i;', 1),
    (r'auto it = target\.find\(member\.key\(\)\);\s*if \(it != target\.object_range\(\)\.end\(\)\)', 'if (vx_found[vx_i])', 1),
    (r'member\.value\(\) != \(\*it\)\.value\(\)', '!vx_equal[vx_i]', 1),
    (r'result\.try_emplace\(member\.key\(\), from_diff\(member\.value\(\), \(\*it\)\.value\(\)\)\);', 'vx_emplace_diff();', 1),
    (r'result\.try_emplace\(member\.key\(\), Json::null\(\)\);', 'vx_emplace_null();', 1),
]
D_RULES2 = [
    (r'for \(const auto& member : target\.object_range\(\)\)\s*\{', 'for (size_t vx_i = 0; vx_i < vx_n; ++vx_i) { vx_cur = vx_i;', 1),
    (r'auto it = source\.find\(member\.key\(\)\);\s*if \(it (==|!=) source\.object_range\(\)\.end\(\)\)', r'if ((vx_found[vx_i] != 0) \1 false)', 1),
    (r'result\.try_emplace\(member\.key\(\), member\.value\(\)\);', 'vx_emplace_copy();', 1),
]
SIG_A = r'Json apply_merge_patch_\(Json& target, const Json& patch\)'
SIG_D = r'Json from_diff\(const Json& source, const Json& target\)'
SPECS = [
    FuncSpec('apply_merge_patch_level', M, SIG_A, count=1, csig='void apply_merge_patch_level(void)', contract=APPLY, rules=A_RULES, loops={0: LOOP % APPLY_W, 'count': 1}),
    FuncSpec('from_diff_source_loop', M, SIG_D, count=1, csig='void from_diff_source_loop(void)', contract=DIFF(DIFF1_W, 'from_diff, members of the source (watched: any): a member that the target lacks becomes null in the patch; one that differs becomes the nested diff; one that is equal is left out'),
             rules=D_RULES1, slice_from=r'for \(const auto& member : source\.object_range\(\)\)', slice_to=r'for \(const auto& member : target\.object_range\(\)\)', loops={0: LOOP % DIFF1_W, 'count': 1}),
    FuncSpec('from_diff_target_loop', M, SIG_D, count=1, csig='void from_diff_target_loop(void)', contract=DIFF(DIFF2_W, 'from_diff, members of the target (watched: any): a member that the source lacks is copied into the patch; the others were handled by the first loop'),
             rules=D_RULES2, slice_from=r'for \(const auto& member : target\.object_range\(\)\)', slice_to=r'return result;', loops={0: LOOP % DIFF2_W, 'count': 1}),
]
HARNESSES = [
    Harness('apply_merge_patch_level', 'h_apply_merge_patch_level', enforce='apply_merge_patch_level', loop_contracts=True, method='LC', props=['C16'], expect_classes={'loop_invariant_step': 1},
            note='one level of the recursion; the recursive call is an event carrying whether it was given the existing member value or an empty object'),
    Harness('from_diff_source_loop', 'h_from_diff_source_loop', enforce='from_diff_source_loop', loop_contracts=True, method='LC', props=['C16'], expect_classes={'loop_invariant_step': 1}),
    Harness('from_diff_target_loop', 'h_from_diff_target_loop', enforce='from_diff_target_loop', loop_contracts=True, method='LC', props=['C16'], expect_classes={'loop_invariant_step': 1}),
]
