/* unit toon_number: which unquoted tokens the TOON reader takes as numbers (the scanner of parse_primitive, toon_reader.hpp) and which strings the TOON
 * encoder quotes because they look like numbers (is_number, encode_toon.hpp).  Both loops run in lock-step with the DFAs of spec_toon.h:
 *   reader:  number  ==>  token in M;   token in P (plain decimal, what the encoder writes for numbers)  ==>  number, with the digits and the count of
 *            decimal places the token has;          encoder:  string in M  ==>  is_number (so it is quoted).
 * Together: a string that the encoder leaves unquoted is never read back as a number, and a number written by the encoder is read back as a number. */
#include "vx_common.h"
#include "spec_toon.h"
#include <stdlib.h>
/*@ENUM parse_number_state@*/
/*@ENUM is_number_state@*/
static char* vx_tok; static size_t vx_n;
/* monitors: vx_q over M, vx_qp over P, both have consumed vx_consumed characters of the token */
static int vx_q, vx_qp; static size_t vx_consumed, vx_ndig, vx_nfrac; static bool vx_seen_dot, vx_gave_up;
#define VX_STEP_AT(i) do { char vx_c = vx_tok[i]; vx_q = spec_toon_numlike_step(vx_q, vx_c); vx_qp = spec_toon_plain_step(vx_qp, vx_c); \
    if (spec_toon_is_digit(vx_c)) { vx_ndig++; if (vx_seen_dot) vx_nfrac++; } if (vx_c == '.') vx_seen_dot = true; vx_consumed++; } while (0)
/* the character at which the code made a transition without consuming it (what the branch conditions said about it is carried by the invariant) */
static size_t vx_nz_i; static char vx_nz_c;
#define VX_NOTE(i) do { vx_nz_i = (i); vx_nz_c = ((i) < vx_n) ? vx_tok[i] : 'x'; } while (0)
/* reader: results of the scan (locals of parse_primitive) */
static bool neg_value, neg_exp, not_a_number; static size_t decimal_places;
static size_t vx_num_len, vx_exp_len; static bool vx_push_bad;
static void vx_num_push(char c, char cur) { if (c != cur && !(c == '0')) vx_push_bad = true; vx_num_len++; }
#define VX_GIVE_UP(i) do { __CPROVER_assert(spec_toon_plain_step(vx_qp, vx_tok[i]) == TP_REJ, "[C18][C04] the reader gives up on a token only at a character where no plain decimal number continues"); vx_qp = TP_REJ; vx_gave_up = true; } while (0)
#define VX_END_REJECT() __CPROVER_assert(!spec_toon_plain_accepting(vx_qp), "[C18][C04] the reader does not refuse a complete plain decimal number")
/* encoder */
#define VX_E_GIVE_UP(i) do { __CPROVER_assert(spec_toon_numlike_step(vx_q, vx_tok[i]) == TM_REJ, "[C18] is_number gives up only at a character where no number look-alike continues"); vx_q = TM_REJ; } while (0)
/*@FUNC scan_number_token@*/
/*@FUNC is_number@*/
/* is_unquoted_safe: std::isspace in the "C" locale; whether the string equals one of the three literals (string comparison, trusted); watched position */
static bool vx_isspace(char c) { return c == ' ' || c == '\t' || c == '\n' || c == '\v' || c == '\f' || c == '\r'; }
static bool vx_is_literal; static size_t vx_w;
/*@FUNC is_unquoted_safe@*/
#ifdef VX_CBMC
static void setup(void)
{
    vx_n = nondet_size();
#ifdef VX_SMALL
    __CPROVER_assume(vx_n <= 6);
#endif
    __CPROVER_assume(vx_n >= 1 && vx_n <= 100000000);
    vx_tok = malloc(vx_n); __CPROVER_assume(vx_tok != 0);
    vx_q = TM_START; vx_qp = TP_START; vx_consumed = 0; vx_ndig = 0; vx_nfrac = 0; vx_seen_dot = false; vx_gave_up = false; vx_num_len = 0; vx_exp_len = 0; vx_push_bad = false; vx_nz_i = 0; vx_nz_c = 'x';
}
void h_scan_number_token(void) { setup(); scan_number_token(); }
void h_is_unquoted_safe(void) { setup(); vx_is_literal = nondet_bool(); vx_w = nondet_size(); __CPROVER_assume(vx_w < vx_n); bool r = is_unquoted_safe((char)nondet_u8()); (void)r; }
void h_is_number(void) { setup(); bool r = is_number(); (void)r; }
#endif
