/* S-TOON: TOON specification (github.com/toon-format/spec), section "Strings and keys / escaping": inside a quoted string or key exactly five escape
 * sequences are valid:  \\ -> backslash, \" -> double quote, \n -> LF, \r -> CR, \t -> TAB;  any other backslash sequence is an error and decoders
 * MUST reject it; the characters backslash, double quote, LF, CR, TAB never appear raw inside quotes.  A row of delimited values consists of cells
 * separated by the active delimiter; a cell is either a quoted string (from a double quote to the next unescaped double quote) or unquoted text
 * that contains neither a double quote nor the delimiter.  Not derived from jsoncons. */
#ifndef SPEC_TOON_H
#define SPEC_TOON_H
/* decoder of the interior of a quoted string, one character at a time: returns the decoded character, -1 after a backslash (nothing yet), -2 invalid */
static inline int spec_toon_unescape_step(int* st, int c)
{
    c &= 0xff;
    if (*st == 0) {
        if (c == '\\') { *st = 1; return -1; }
        if (c == '"' || c == '\n' || c == '\r' || c == '\t') return -2;    /* must be escaped */
        return c;
    }
    *st = 0;
    switch (c) { case '\\': return '\\'; case '"': return '"'; case 'n': return '\n'; case 'r': return '\r'; case 't': return '\t'; default: return -2; }
}
/* scanner of a row of delimited values */
enum spec_toon_row_state { ROW_START = 0, ROW_UNQ = 1, ROW_INQ = 2, ROW_ESC = 3, ROW_AFTER = 4, ROW_BAD = 5 };
/* Number look-alikes.  TOON specification, "Quoting rules for string values": an encoder MUST quote a string that is numeric-like, i.e. matches
 *   /^-?\d+(?:\.\d+)?(?:e[+-]?\d+)?$/i   (or has a forbidden leading zero, /^0\d+$/);   "Decoding: an unquoted token is a number only if it matches the
 * numeric pattern", otherwise it is a string.  For the round trip decode(encode(v)) == v what matters is one direction on each side:
 *   reader:  token taken as a number  ==>  token in M            encoder:  string in M  ==>  string is quoted
 * for some interface language M.  M is taken a little wider than the specification's pattern (integer part optional, as in ".5" and "e5"; integer part
 * without leading zeros), so that a reader that is more liberal than the specification about a missing integer part is not reported as long as the encoder
 * quotes those strings too:
 *   M = -? ( 0 | [1-9][0-9]* )? ( . [0-9]+ )? ( [eE] [+-]? [0-9]+ )?      with at least one digit.
 * One step of the DFA of M: */
enum spec_toon_num_state { TM_START = 0, TM_NEG, TM_ZERO, TM_INT, TM_DOT, TM_FRAC, TM_E, TM_ESIGN, TM_EXP, TM_REJ };
static inline int spec_toon_is_digit(int c) { return c >= '0' && c <= '9'; }
static inline int spec_toon_numlike_step(int q, int c)
{
    c &= 0xff;
    switch (q) {
    case TM_START: case TM_NEG:
        if (q == TM_START && c == '-') return TM_NEG;
        if (c == '0') return TM_ZERO; if (c >= '1' && c <= '9') return TM_INT; if (c == '.') return TM_DOT; if (c == 'e' || c == 'E') return TM_E; return TM_REJ;
    case TM_ZERO: if (c == '.') return TM_DOT; if (c == 'e' || c == 'E') return TM_E; return TM_REJ;
    case TM_INT: if (spec_toon_is_digit(c)) return TM_INT; if (c == '.') return TM_DOT; if (c == 'e' || c == 'E') return TM_E; return TM_REJ;
    case TM_DOT: return spec_toon_is_digit(c) ? TM_FRAC : TM_REJ;
    case TM_FRAC: if (spec_toon_is_digit(c)) return TM_FRAC; if (c == 'e' || c == 'E') return TM_E; return TM_REJ;
    case TM_E: if (c == '+' || c == '-') return TM_ESIGN; return spec_toon_is_digit(c) ? TM_EXP : TM_REJ;
    case TM_ESIGN: return spec_toon_is_digit(c) ? TM_EXP : TM_REJ;
    case TM_EXP: return spec_toon_is_digit(c) ? TM_EXP : TM_REJ;
    default: return TM_REJ;
    }
}
static inline int spec_toon_numlike_accepting(int q) { return q == TM_ZERO || q == TM_INT || q == TM_FRAC || q == TM_EXP; }
/* Plain decimal numbers, the form in which an encoder writes every finite number ("Numbers: canonical decimal form, no exponent"):
 *   P = -? ( 0 | [1-9][0-9]* ) ( . [0-9]+ )?          A reader must take every token in P as a number. */
enum spec_toon_plain_state { TP_START = 0, TP_NEG, TP_ZERO, TP_INT, TP_DOT, TP_FRAC, TP_REJ };
static inline int spec_toon_plain_step(int q, int c)
{
    c &= 0xff;
    switch (q) {
    case TP_START: case TP_NEG:
        if (q == TP_START && c == '-') return TP_NEG;
        if (c == '0') return TP_ZERO; if (c >= '1' && c <= '9') return TP_INT; return TP_REJ;
    case TP_ZERO: return c == '.' ? TP_DOT : TP_REJ;
    case TP_INT: if (spec_toon_is_digit(c)) return TP_INT; return c == '.' ? TP_DOT : TP_REJ;
    case TP_DOT: return spec_toon_is_digit(c) ? TP_FRAC : TP_REJ;
    case TP_FRAC: return spec_toon_is_digit(c) ? TP_FRAC : TP_REJ;
    default: return TP_REJ;
    }
}
static inline int spec_toon_plain_accepting(int q) { return q == TP_ZERO || q == TP_INT || q == TP_FRAC; }
#endif
