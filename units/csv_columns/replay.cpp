// replay for unit csv_columns: tables read with mapping_kind m_columns.  (1) numbers at the edges of the integer ranges written as CSV and read back column-wise must come back as
// the same numbers (the cached events are replayed with their values); (2) texts whose fields hold sub-fields inside column_types groups, with and without ignore_empty_values,
// must decode to a value or fail with a json_exception under ASan/UBSan, and the column-wise result must hold the same scalars as the row-wise one.
#include <jsoncons/json.hpp>
#include <jsoncons_ext/csv/csv.hpp>
#include "replay_util.hpp"
using namespace jsoncons;
static void scalars(const json& j, std::vector<std::string>& out) { if (j.is_array()) { for (const auto& e : j.array_range()) scalars(e, out); } else if (j.is_object()) { for (const auto& m : j.object_range()) scalars(m.value(), out); } else out.push_back(j.to_string()); }
int main(int argc, char** argv)
{
    if (argc < 3) return 2;
    vx_replay_inputs in; in.load(argv[2]);
    int bad = 0, total = 0; std::string first;
    std::vector<uint64_t> us = {0, 1, 9223372036854775807ull, 9223372036854775808ull, 18446744073709551615ull, in.u64("e.uint64_value", 12345)};
    std::vector<int64_t> is = {-1, INT64_MIN, -4611686018427387904ll};
    { ++total; json col(json_array_arg), col2(json_array_arg); for (uint64_t u : us) { col.push_back(u); col2.push_back("s"); } for (int64_t i : is) { col.push_back(i); col2.push_back("t"); }
      json table(json_object_arg); table["id"] = col; table["name"] = col2;
      try { std::string text; csv::encode_csv(table, text, csv::csv_options{}.mapping_kind(csv::csv_mapping_kind::m_columns));
            json back = csv::decode_csv<json>(text, csv::csv_options{}.assume_header(true).mapping_kind(csv::csv_mapping_kind::m_columns));
            if (back != table) { first = "the column-wise table " + table.to_string() + " comes back as " + back.to_string(); ++bad; } }
      catch (const std::exception& e) { first = std::string("column-wise round trip fails: ") + e.what(); ++bad; } }
    struct tc { const char* text; const char* types; };
    for (tc c : {tc{"a\n1;4\n", "[float]"}, tc{"a\n;4\n", "[float]*"}, tc{"a,b\n1,2,;\n", "integer,[float]*"}, tc{"a,b\n1,;4\n", "integer,[float]"}, tc{"ab,c\n1;2,3\n;4,5\n6,7;8,9\n", "integer,[float,string]*"},
                 tc{"a,b\n1;2,3\n", "[integer]*"}, tc{"a,b,c\n1,,3\n", "integer,[float,string]*"}, tc{"a,b\n1;2;3,4;5\n6,7\n", "integer,[integer]"}, tc{"a\n;\n", ""}, tc{"a,b\n1,;\n", ""}})
        for (int iev = 0; iev < 2; ++iev) { ++total; std::string doc(c.text);
            auto o = csv::csv_options{}.assume_header(true).ignore_empty_values(iev != 0).subfield_delimiter(';'); if (*c.types) o.column_types(c.types);
            try { auto oc = o; oc.mapping_kind(csv::csv_mapping_kind::m_columns); auto orow = o; orow.mapping_kind(csv::csv_mapping_kind::n_objects);
                  json cols = csv::decode_csv<json>(doc, oc); json rows = csv::decode_csv<json>(doc, orow);
                  std::vector<std::string> a, b; scalars(cols, a); scalars(rows, b); std::sort(a.begin(), a.end()); std::sort(b.begin(), b.end());
                  if (a != b) { if (!bad) first = "column_types " + std::string(c.types) + ", ignore_empty_values " + std::to_string(iev) + ": column-wise " + cols.to_string() + " and row-wise " + rows.to_string() + " hold different values"; ++bad; } }
            catch (const jsoncons::json_exception&) {}
            catch (const std::exception& e) { if (std::string(e.what()).find("assertion") == std::string::npos) { if (!bad) first = std::string("foreign exception: ") + e.what(); ++bad; } } }
    if (bad) VX_REPRO(bad << " of " << total << " column-wise csv cases fail, first: " << first);
    VX_NOREPRO("all " << total << " column-wise csv cases hold");
}
