# U-PNUM (DESIGN 6, 5.3): basic_json_parser::parse_number against the RFC 8259 number DFA, all entry states, unbounded buffer
from core import FuncSpec, CopySpec, EnumSpec, Harness, INF

J = 'include/jsoncons/json_parser.hpp'
R = 'include/jsoncons/utility/read_number.hpp'
DIGITS = CopySpec('digit_tables', R, r'JSONCONS_INLINE_CONSTEXPR uint8_t DIGIT_TYPE_ZERO', r'constexpr bool is_sign\(wchar_t d\)', include_end=False,
                  rules=[(r'JSONCONS_INLINE_CONSTEXPR', 'static const', 7), (r'constexpr bool', 'static bool', 7)], common=True)

LABELS = {'minus_sign': 'NUM_MINUS', 'zero': 'NUM_ZERO', 'integer': 'NUM_INT', 'fraction1': 'NUM_FRAC1', 'fraction2': 'NUM_FRAC2',
          'exp1': 'NUM_EXP1', 'exp2': 'NUM_EXP2', 'exp3': 'NUM_EXP3'}
LABEL_RULES = [(r'(?m)^%s:' % l, '%s: VX_AT_LABEL(%s);' % (l, s), 1) for l, s in LABELS.items()]
RULES = [
    (r'parse_number_state::(\w+)', r'parse_number_state_\1', 14, 24),
    (r'json_errc::(\w+)', r'json_errc_\1', 8, 14),
    (r'jsoncons::is_', 'is_', 8, 16),
    (r'err_handler_\((\w+), \*this\);', r'VX_ERR_HANDLER(\1);', 5),
    (r'buffer_\.append\(hdr, cur\);', 'VX_BUF_APPEND(hdr, cur);', 12),
    (r'end_integer_value\(visitor, ec\);', 'vx_end_integer_value(ec_p);', 2),
    (r'end_fraction_value\(visitor, ec\);', 'vx_end_fraction_value(ec_p);', 2),
    (r'\+\+cur;', 'VX_MON_STEP(*cur); ++cur;', 15),
    (r'const char_type\*', 'const char*', 2),
] + LABEL_RULES

INV = lambda st: '''__CPROVER_assigns(cur, vx_mon)
  __CPROVER_loop_invariant(__CPROVER_same_object(cur, vx_buf) && vx_off <= __CPROVER_POINTER_OFFSET(cur) && __CPROVER_POINTER_OFFSET(cur) <= vx_n && vx_mon == %s)
  __CPROVER_decreases(vx_n - __CPROVER_POINTER_OFFSET(cur))''' % st

RES = '__CPROVER_return_value'
RO = '__CPROVER_POINTER_OFFSET(%s)' % RES
EXH = '(vx_event == VX_EV_NONE && !vx_err_called)'
NEXT = 'vx_buf[%s]' % RO
CONTRACT = [
    ('requires', 'vx_off <= vx_n && hdr == vx_buf + vx_off && self->input_end_ == vx_buf + vx_n && *ec_p == 0'),
    ('requires', 'self->number_state_ <= parse_number_state_exp3 && vx_mon == (int)self->number_state_'),
    ('requires', 'vx_event == VX_EV_NONE && !vx_err_called && vx_appends == 0 && self->position_ <= SIZE_MAX / 2 && vx_n <= SIZE_MAX / 4'),
    ('assigns', 'self->number_state_, self->position_, self->more_, *ec_p, vx_mon, vx_event, vx_err_called, vx_err_code, vx_appends, vx_app_from, vx_app_to'),
    ('ensures', '[C05][C03] the returned position lies between the start and the end of the chunk',
     '__CPROVER_same_object(%s, vx_buf) && vx_off <= %s && %s <= vx_n' % (RES, RO, RO)),
    ('ensures', '[C03][C02] buffer exhausted inside a number: everything was consumed and the saved state is the RFC 8259 DFA state of the characters consumed so far',
     '%s ==> (%s == vx_n && (int)self->number_state_ == vx_mon && vx_mon != NUM_ERR && *ec_p == 0)' % (EXH, RO)),
    ('ensures', '[C03] ... and exactly the consumed characters were copied to the scratch buffer for the next chunk',
     '%s ==> (vx_appends == 1 && vx_app_from == vx_off && vx_app_to == vx_n)' % EXH),
    ('ensures', '[C02][C01] an integer value is delivered only for a complete integer literal (RFC 8259 int), ending exactly where the next character cannot continue the number',
     'vx_event == VX_EV_INTEGER ==> (spec_num_integer_form(vx_mon) && %s < vx_n && spec_num_step(vx_mon, %s) == NUM_ERR && !spec_num_digit(%s) && !vx_err_called)' % (RO, NEXT, NEXT)),
    ('ensures', '[C02][C01] a floating value is delivered only for a complete literal with fraction and/or exponent, ending exactly where the next character cannot continue the number',
     'vx_event == VX_EV_FRACTION ==> ((vx_mon == NUM_FRAC2 || vx_mon == NUM_EXP3) && %s < vx_n && spec_num_step(vx_mon, %s) == NUM_ERR && !vx_err_called)' % (RO, NEXT)),
    ('ensures', '[C02][C03] a delivered value was preceded by copying exactly its characters of this chunk to the scratch buffer',
     'vx_event != VX_EV_NONE ==> (vx_appends == 1 && vx_app_from == vx_off && vx_app_to == %s)' % RO),
    ('ensures', '[C02] an error is raised only where the next character cannot continue the number and the prefix is not a complete number (or is a leading zero followed by a digit)',
     'vx_err_called ==> (vx_event == VX_EV_NONE && *ec_p == vx_err_code && *ec_p != 0 && %s < vx_n && spec_num_step(vx_mon, %s) == NUM_ERR && (!spec_num_accepting(vx_mon) || (vx_mon == NUM_ZERO && spec_num_digit(%s))) && self->more_ == 0)' % (RO, NEXT, NEXT)),
    ('ensures', '[C02] a leading zero followed by a digit is reported as leading_zero, everything else as invalid_number',
     'vx_err_called ==> (vx_err_code == ((vx_mon == NUM_ZERO) ? json_errc_leading_zero : json_errc_invalid_number))'),
    ('ensures', '[C03] the character position advances by exactly the characters consumed',
     'self->position_ == __CPROVER_old(self->position_) + (%s - vx_off)' % RO),
]
AL = {'ec': '(*ec_p)', 'number_state_': '(self->number_state_)', 'input_end_': '(self->input_end_)', 'position_': '(self->position_)', 'more_': '(self->more_)'}
SPECS = [
    DIGITS,
    EnumSpec('parse_number_state', J), EnumSpec('json_errc', 'include/jsoncons/json_error.hpp'),
    FuncSpec('parse_number', J, r'const char_type\* parse_number\(const char_type\* hdr, basic_json_visitor<char_type>& visitor, std::error_code& ec\)', count=1,
             csig='const char* parse_number(struct json_parser* self, const char* hdr, int* ec_p)', contract=CONTRACT, aliases=AL, rules=RULES,
             loops={0: INV('NUM_INT'), 1: INV('NUM_FRAC2'), 2: INV('NUM_EXP3'), 'count': 3}),
]
HARNESSES = [
    Harness('parse_number', 'h_parse_number', enforce='parse_number', loop_contracts=True, method='LC', props=['C02', 'C03', 'C04', 'C01'],
            expect_classes={'loop_invariant_step': 3}, timeout=900, solver='cadical'),
]
