import json, os
V='/verif/seeded'
CONF = "sub-agent worked in its own scratch git worktree of /repo (never in /repo); I re-ran in that worktree: cmake --build + ctest (100% passed; unit_tests: 21147 assertions in 907 test cases) with the change applied; demo.cpp exits 1 with the change and 0 against /repo/include; worktree diff == patch.diff; patch applies to /repo HEAD (vx/seed_confirm.sh)"
RAN = ["vx/seed_confirm.sh <worktree> <name>", "vx/seed_run.sh <name> <property>  (copy of /repo/include + patch, bin/check with VX_REPO; equivalent to git -C /repo apply / bin/check / git -C /repo checkout -- .)"]
M = {
 'C02-dup-key-unstable-sort': ('C02', "sorted_json_object::compare() loses the index tie-break, so std::sort (unstable) decides which duplicate member survives", "default (sorted) json object with >= 17 members in the text and a repeated name; libstdc++ sorts <= 16 elements by insertion sort, which is stable",
   "object_dedup/compare postcondition 1 (strict weak order with the text position as tie-break) and lemma_first_wins -> VIOLATION, replay REPRODUCED on json::parse"),
 'C03-fals-cursor-mode': ('C03', "parse_some_, resumable state fals: the line more_ = !cursor_mode_ after bool_value(false) is removed", "pull cursor (cursor_mode) and the literal false split over two chunks so that the slow path completes it",
   "json_literals/literal_step postcondition (every literal completion stops the parser in cursor mode) -> VIOLATION, replay REPRODUCED with json_stream_cursor over split input"),
 'C03-surrogate-pair2-state': ('C03', "parse_string: after the backslash of the low surrogate the saved state is escape_expect_surrogate_pair1 instead of ..pair2", "a \\uD83D\\uDE00 style pair with the chunk boundary exactly between the second backslash and its u",
   "json_string parse_string_* postcondition 2 (state saved at a chunk end is the state of the S-STR monitor) in 8 harnesses -> VIOLATION, replay REPRODUCED by feeding the parser in two chunks"),
 'C04-grisu-boundary-shift': ('C04', "grisu3 normalized_boundaries: significand_is_zero computed by a shift that is off by one, so it is never true", "a double that is an exact power of two at one of ~250 exponents where a shorter decimal falls into the extra quarter-ulp, default shortest format",
   "grisu/normalized_boundaries postcondition 3 (m- is v - 2^(e-2) when the significand is 2^52) -> VIOLATION, replay REPRODUCED (2^64 prints as 1.844674407370955e+19)"),
 'C05-cbor-stringref-bound': ('C05', "cbor read_item: stringref bound check val >= size became val > size", "malformed CBOR: tag 256 namespace and tag 25 on an unsigned integer exactly equal to the current table size",
   "cbor_item/read_item postcondition 3 (index >= table size -> stringref_too_large) and the modelled vector::at assertion -> VIOLATION, replay REPRODUCED (std::out_of_range escapes decode_cbor)"),
 'C06-bytestring-strref-index': ('C06', "cbor visit_byte_string (both overloads): stringref threshold taken from bytestringref_map_.size() instead of the shared running index", "pack_strings, >= 24 packed strings already written, then a new 3-byte byte string, then a repeated string",
   "cbor_strref/visit_byte_string{,_tagged} postconditions 2 and 5 (index assigned iff length >= min_length(shared index)) -> VIOLATION, replay REPRODUCED on encode/decode round trips"),
 'C08-cbor-bignum-head': ('C08', "cbor write_bignum: byte-string head uses the one-byte form for lengths up to 0x1f instead of 0x17", "a bigint whose magnitude takes 24..31 bytes (about 58..75 decimal digits) encoded to CBOR",
   "cbor_head/write_bignum_head postcondition (head is the RFC 8949 head of major type 2 for the length) -> VIOLATION, replay REPRODUCED (decoder rejects / misreads the item)"),
 'C08-ubjson-length-int16': ('C08', "ubjson put_length: the 'I' (int16) branch is taken up to 65535", "a string, key, byte string or container count of 32768..65535",
   "ubjson/put_length postcondition 1 (marker/payload is the smallest signed type that holds the length, value non-negative) -> VIOLATION, replay REPRODUCED (declared length negative)"),
 'C09-ojson-bloom': ('C09', "ordered_json_object::bloom_set stores the second probe bit with = instead of |=", "ojson object of <= 512 members built in one go, two keys whose probe bits share a byte, then a repeat of the earlier key",
   "ojson_bloom/bloom_set postconditions 1-2 (both bits set, no other bit cleared) and lemma_no_false_negative -> VIOLATION, replay REPRODUCED (ojson with a duplicate key)"),
 'C10-flatten-destroy': ('C10', "basic_json::destroy flattening no longer flattens nested objects, only arrays", "a document of nested objects tens of thousands deep being destroyed (stack overflow in the recursive destructor)",
   "first missed (no unit covered destruction); unit json_flatten was added: array_flatten_step loop_invariant_step (every non-empty array or object child is moved to the work list before the container's storage is cleared) -> VIOLATION, replay REPRODUCED (200000-deep document overflows a 512 KB stack on destruction)"),
 'C10-source-reader-claimed-length': ('C10', "source_reader::read direct-read branch resizes the destination to all whole chunks of the claimed length at once", "a binary string/bytes item whose claimed length is huge, starting exactly on a 16 KB chunk boundary of a stream source",
   "source_reader/read loop invariant and postcondition (destination grows by at most one chunk per delivered chunk) -> VIOLATION, replay REPRODUCED (allocation of the claimed size)"),
 'C13-slice-neg-start': ('C13', "jmespath slice::get_start clamps a still-negative start to 0 for every step sign and the step>0 clamp is removed", "negative step with an explicit negative start of magnitude greater than the array length, e.g. foo[-5::-1] on 4 elements",
   "slices/jm_slice loop_invariant_base and VX_VISIT assertions (first index visited is not the spec's) -> VIOLATION, replay REPRODUCED on jmespath::search"),
 'C14-leading-zeros-00': ('C14', "jsonpointer resolve (both overloads): leading-zero test rewritten so that all-zero tokens 00, 000 pass", "an array index token consisting of two or more zeros",
   "jsonpointer/resolve_get and resolve_mut postconditions 2-4 (index tokens are exactly 0 | [1-9][0-9]*) -> VIOLATION, replay REPRODUCED (get(/arr/00) succeeds)"),
 'C18-toon-tabular-backslash': ('C18', "toon parse_delimited_values: inside a quoted cell only \\\" is skipped as an escape pair, \\\\ no longer", "a tabular-array cell that ends in a backslash (encoded as ...\\\\\")",
   "toon/parse_row_tabular loop_invariant_step 6 (scanner state follows the S-TOON quoted-string monitor) -> VIOLATION, replay REPRODUCED (decode(encode(v)) fails)"),
 'C12-jsonpath-parser-slice-reset': ('C12', "jsonpath compile(), state slice_expression_stop: the reset slic = slice{} after pushing a two-part slice became buffer.clear()", "one expression with two slice selectors, the earlier with a non-default bound and a later one omitting that bound, e.g. $.a[1:3][:2]",
   "first missed (the slices unit covers evaluation, not parsing); unit jsonpath_slice_parse was added: slice_states postcondition 2 (after a push the accumulator is the default slice) -> VIOLATION, replay REPRODUCED ($[:0,:] selects [])"),
 'C02-wchar-is-digit-truncation': ('C02', "is_digit(wchar_t) looks the character up in the 256-entry table after truncating it to its low byte", "wchar_t text (wjson) with a non-ASCII code unit whose low byte is 0x30-0x39 directly after a digit, '.', 'e' or a sign of a number, e.g. [1\u0431]",
   "first missed (the wchar_t instantiation was not under contract); unit digit_classes was added: is_digit_w postcondition (true exactly for ASCII 0-9 over all 32-bit code units) -> VIOLATION, replay REPRODUCED (wide text [1\u0431] accepted)"),
 'C14-add-dash-prefix': ('C14', "jsonpointer::add, array branch: the past-the-end test accepts every token that starts with '-'", "add() whose last token starts with '-' and has length >= 2 (-1, -0, --) addressing an array", None),
 'C07-half-neg-infinity': ('C07', "binary::decode_half (software path): inf/NaN returned early, skipping the sign", "CBOR half-precision -Infinity, f9 fc 00", None),
 'C09-try-emplace-hint-skip': ('C09', "sorted_json_object::try_emplace(hint, ...) (both overloads): the search starts at std::next(hint) when hint->key() <= name", "default (sorted) json, hinted try_emplace or merge(hint, ...) whose hint points at the member that already has the name", None),
 'C13-jmespath-step-slice-reset': ('C13', "jmespath compile(), state rhs_slice_expression_step, case ']': the reset slic = slice{} after a three-part slice is removed", "one expression with two slices, the earlier written with a step part and a non-default bound, a later one omitting that part, e.g. a[::-1] | [:3]", None),
 'C16-merge-nonobject-member-asis': ('C16', "apply_merge_patch_: when the member exists and its old value is not an object, the patch value is inserted as it is instead of being merged", "target member exists with a non-object value, patch value for it is an object containing a null at some depth, e.g. {\"a\":1} patched with {\"a\":{\"b\":null,\"c\":2}}",
   "mergepatch/apply_merge_patch_level loop_invariant_step and postcondition 3 (a non-null patch value replaces the member by the recursive merge - one recursion per such member) -> VIOLATION, replay REPRODUCED; the extraction rules first had to learn the new statement shape (an un-merged insertion is an event of its own)"),
 'C15-move-definite-path-early': ('C15', "apply_patch, move: definite_path(target, location) is computed before the from value is removed instead of after", "a move whose path ends in '-' and whose from removal changes the array named by the path prefix, e.g. /a/0 to /a/-",
   "first missed (the events carried no order between definite_path and the edits); the monitor of unit jsonpatch now stamps definite_path with the number of edits made: patch_operation assertion (the definite form is computed on the document the insertion is applied to) -> VIOLATION, replay REPRODUCED"),
 'C18-csv-minimal-quote-linebreak': ('C18', "csv write_string_value (quote_style minimal): quotes a field for characters of line_delimiter_ only, not for every CR/LF", "minimal quoting and a field containing a lone CR (default delimiter LF) or LF (delimiter CR)", None),
 'C01-grisu-pow2-lower-boundary': ('C01', "grisu3 normalized_boundaries, power-of-two branch: mi.f = (v.f << 2) - 2 instead of - 1", "a double that is an exact power of two at one of ~250 exponents (smallest positive: 2^64), default shortest format", None),
}
for name, (prop, summ, needs, det) in M.items():
    d = os.path.join(V, name)
    if not os.path.isdir(d): continue
    p = os.path.join(d, 'meta.json')
    if os.path.exists(p) and det is None: continue
    json.dump({'property': prop, 'summary': summ, 'needs': needs, 'detected_by': det or 'pending', 'confirmed': CONF, 'ran': RAN}, open(p, 'w'), indent=1)
    print('wrote', p)
