# U-JP-ENUM (C12): wildcard, recursive descent (own level), name selector on arrays
from core import FuncSpec, CopySpec, EnumSpec, Harness
JP = 'include/jsoncons_ext/jsonpath/jsonpath_selector.hpp'
SIG = r'void select\(eval_context<Json,JsonReference>& context,\s*reference root,\s*const path_node_type& last,\s*reference current,\s*node_receiver_type& receiver,\s*result_options options\) const override'
LOOP = '''__CPROVER_assigns(%s, vx_next, vx_visits, vx_bad, vx_self_first)
  __CPROVER_loop_invariant(%s <= vx_size && vx_next == %s && vx_visits == %s && !vx_bad && vx_self_first)
  __CPROVER_decreases(vx_size - %s)'''
LA, LO = LOOP % (('i',) * 5), LOOP % (('vx_i',) * 5)
COMMON = [(r'current\.is_array\(\)', 'vx_is_array', 1), (r'current\.is_object\(\)', 'vx_is_object', 1), (r'current\.size\(\)', 'vx_size', 1, 8), (r'std::size_t i = (\w+)', r'uint64_t i = \1', 0, 1),
          (r'for \(auto& (?:member|item) : current\.object_range\(\)\)', 'for (uint64_t vx_i = 0; vx_i < vx_size; ++vx_i)', 0, 1)]
ENUM_POST = [('requires', 'vx_size <= (uint64_t)INT64_MAX && vx_next == 0 && vx_visits == 0 && vx_selfs == 0 && !vx_bad && vx_self_first'),
             ('assigns', 'vx_next, vx_visits, vx_selfs, vx_bad, vx_self_first'),
             ('ensures', '[C12] every element of an array and every member of an object is selected exactly once, in document order; nothing is selected from a scalar',
              '!vx_bad && ((vx_is_array || vx_is_object) ? (vx_visits == vx_size && vx_next == vx_size) : vx_visits == 0)')]
WILD = ENUM_POST + [('ensures', '[C12] the wildcard does not select the container itself', 'vx_selfs == 0')]
REC = ENUM_POST + [('ensures', '[C12] recursive descent selects the container itself once, before its children, and nothing for a scalar', '((vx_is_array || vx_is_object) ? vx_selfs == 1 : vx_selfs == 0) && vx_self_first')]
IDENT = [('requires', 'vx_size <= (uint64_t)INT64_MAX && vx_visits == 0 && !vx_bad'),
         ('assigns', 'vx_visits, vx_bad, vx_visited, vx_selfs'),
         ('ensures', '[C12] a name that reads as an integer n, applied to an array: n >= 0 selects element n iff n < size; n < 0 selects element size+n iff size+n >= 0; nothing otherwise',
          '(vx_is_array && vx_id_is_int) ==> (((spec_i128)vx_id_val >= 0 && (spec_i128)vx_id_val < (spec_i128)vx_size) ? (vx_visits == 1 && vx_visited == (size_t)vx_id_val) : '
          '(vx_id_val < 0 && (spec_i128)vx_size + vx_id_val >= 0) ? (vx_visits == 1 && (spec_i128)vx_visited == (spec_i128)vx_size + vx_id_val) : vx_visits == 0)'),
         ('ensures', '[C12] applied to an object the member with that name is selected iff it exists', 'vx_is_object ==> (vx_visits == 0 && vx_selfs == (vx_found ? 1 : 0))'),
         ('ensures', '[C12][C05] the selected index is in bounds', '!vx_bad')]
SPECS = [
    FuncSpec('wildcard_select', JP, SIG, body_match=r'for \(std::size_t i = \w+; i <=? current\.size\(\)[^;]*; \+\+i\)\s*\{\s*this->tail_select', csig='void wildcard_select(void)', contract=WILD,
             rules=COMMON + [(r'this->tail_select\(context, root,\s*path_generator_type::generate\(context, last, i, options\), current\[i\],\s*receiver, options\);', 'VX_ELEM(i);', 1),
                             (r'this->tail_select\(context, root,\s*path_generator_type::generate\(context, last, member\.key\(\), options\),\s*member\.value\(\), receiver, options\);', 'VX_ELEM(vx_i);', 1)],
             loops={0: LA, 1: LO, 'count': 2}),
    FuncSpec('recursive_select', JP, SIG, body_match=r'select\(context, root,\s*path_generator_type::generate\(context, last, i, options\), current\[i\], receiver, options\);', csig='void recursive_select(void)', contract=REC,
             rules=COMMON[:3] + [(r'std::size_t i = (\w+)', r'uint64_t i = \1', 1), (r'for \(auto& item : current\.object_range\(\)\)', 'for (uint64_t vx_i = 0; vx_i < vx_size; ++vx_i)', 1),
                                 (r'this->tail_select\(context, root, last, current, receiver, options\);', 'VX_SELF();', 0, 3),
                                 (r'select\(context, root,\s*path_generator_type::generate\(context, last, i, options\), current\[i\], receiver, options\);', 'VX_ELEM(i);', 1),
                                 (r'select\(context, root,\s*path_generator_type::generate\(context, last, item\.key\(\), options\), item\.value\(\), receiver, options\);', 'VX_ELEM(vx_i);', 1)],
             loops={0: LA, 1: LO, 'count': 2}),
    FuncSpec('identifier_select', JP, SIG, body_match=r'current\.find\(identifier_\)', csig='void identifier_select(void)', contract=IDENT,
             rules=[(r'current\.is_array\(\)', 'vx_is_array', 1), (r'current\.is_object\(\)', 'vx_is_object', 1), (r'current\.is_string\(\)', 'vx_is_string', 1), (r'current\.size\(\)', 'vx_size', 2, 6),
                    (r'auto it = current\.find\(identifier_\);\s*if \(it != current\.object_range\(\)\.end\(\)\)', 'if (vx_found)', 1),
                    (r'this->tail_select\(context, root,\s*path_generator_type::generate\(context, last, identifier_, options\),\s*\(\*it\)\.value\(\), receiver, options\);', 'VX_SELF();', 1),
                    (r'int64_t n\{0\};\s*auto r = jsoncons::dec_to_integer\(identifier_\.data\(\), identifier_\.size\(\), n\);', 'int64_t n = vx_id_val; bool r = vx_id_is_int;', 1),
                    (r'auto index = ', 'size_t index = ', 1),
                    (r'this->tail_select\(context, root,\s*path_generator_type::generate\(context, last, index, options\),\s*current\[index\], receiver, options\);', 'VX_VISIT_IDX(index);', 1),
                    (r'else if \(identifier_ == context\.length_label\(\) && vx_size >= 0\)\s*\{.*?\n                \}', 'else if (nondet_bool()) { /* length() pseudo-member: not under contract */ }', 1),
                    (r'else if \(vx_is_string && identifier_ == context\.length_label\(\)\)\s*\{.*?\n            \}', 'else if (vx_is_string && nondet_bool()) { /* length() of a string: not under contract */ }', 1)]),
]
HARNESSES = [
    Harness('wildcard_select', 'h_wildcard_select', enforce='wildcard_select', loop_contracts=True, method='LC', props=['C12'], expect_classes={'loop_invariant_step': 2}),
    Harness('recursive_select', 'h_recursive_select', enforce='recursive_select', loop_contracts=True, method='LC', props=['C12'], expect_classes={'loop_invariant_step': 2},
            note='the own level of the recursive-descent selector: the container itself, then one recursive call per child (the recursion is an event)'),
    Harness('identifier_select', 'h_identifier_select', enforce='identifier_select', method='LF', props=['C12']),
]
