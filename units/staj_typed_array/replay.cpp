// replay for unit staj_typed_array: RFC 8746 typed arrays of every element kind and of 0, 1, 2 and 5 elements are decoded by the real CBOR decoder into
// std::vector<T> for each of the ten value types T; the result must be the element-wise conversion of the array (bulk copy when the types agree), and no
// undefined behaviour may occur on the way (the program is built with UBSan / ASan: a report makes it fail).
#include <jsoncons/json.hpp>
#include <jsoncons_ext/cbor/cbor.hpp>
#include "replay_util.hpp"
#include <cstring>
#include <cmath>
using namespace jsoncons;
static int bad = 0, total = 0; static std::string first;
struct kind { uint8_t tag; int esz; int f; int s; };
static const kind kinds[] = {{0x40,1,0,0},{0x45,2,0,0},{0x46,4,0,0},{0x47,8,0,0},{0x48,1,0,1},{0x4d,2,0,1},{0x4e,4,0,1},{0x4f,8,0,1},{0x54,2,1,0},{0x55,4,1,0},{0x56,8,1,0}};
static double half_ref(unsigned h) { int s = (h >> 15) & 1, e = (h >> 10) & 31, m = h & 1023; double v = e == 0 ? std::ldexp((double)m, -24) : e == 31 ? (m ? NAN : INFINITY) : std::ldexp((double)(m + 1024), e - 25); return s ? -v : v; }
template <class T> static void run(const char* name)
{
    for (const kind& k : kinds) for (size_t n : {(size_t)0, (size_t)1, (size_t)2, (size_t)5}) {
        ++total;
        std::vector<uint8_t> b = {0xd8, k.tag}; if (n * k.esz < 24) b.push_back((uint8_t)(0x40 + n * k.esz)); else { b.push_back(0x58); b.push_back((uint8_t)(n * k.esz)); }
        std::vector<long double> want; std::vector<uint64_t> wanti;
        for (size_t i = 0; i < n; ++i) {
            uint64_t raw = 0; for (int j = 0; j < k.esz; ++j) { uint8_t byte = (uint8_t)(k.f ? 0 : (3 + 7 * i + 11 * j)); raw |= (uint64_t)byte << (8 * j); }
            if (k.f && k.esz == 2) raw = (i % 2) ? 0x3c00 : 0xc100;                                          // 1.0, -2.5
            if (k.f && k.esz == 4) { float x = (float)(1.5 + i); uint32_t u; std::memcpy(&u, &x, 4); raw = u; }
            if (k.f && k.esz == 8) { double x = 2.25 + i; std::memcpy(&raw, &x, 8); }
            for (int j = 0; j < k.esz; ++j) b.push_back((uint8_t)(raw >> (8 * j)));
            long double v;
            if (!k.f) v = k.s ? (k.esz == 1 ? (long double)(int8_t)raw : k.esz == 2 ? (long double)(int16_t)raw : k.esz == 4 ? (long double)(int32_t)raw : (long double)(int64_t)raw) : (long double)raw;
            else if (k.esz == 2) v = std::is_floating_point<T>::value ? (long double)half_ref((unsigned)raw) : (long double)(int16_t)raw;
            else if (k.esz == 4) { float x; uint32_t u = (uint32_t)raw; std::memcpy(&x, &u, 4); v = x; } else { double x; std::memcpy(&x, &raw, 8); v = x; }
            want.push_back(v); wanti.push_back(!k.f ? (k.s ? (k.esz == 1 ? (uint64_t)(int64_t)(int8_t)raw : k.esz == 2 ? (uint64_t)(int64_t)(int16_t)raw : k.esz == 4 ? (uint64_t)(int64_t)(int32_t)raw : raw) : raw) : (uint64_t)(int64_t)(int16_t)raw);
        }
        try { std::vector<T> got = cbor::decode_cbor<std::vector<T>>(b);
              bool ok = got.size() == n; for (size_t i = 0; ok && i < n; ++i) { bool as_int = !k.f || (k.esz == 2 && !std::is_floating_point<T>::value);   // integer sources convert like integers (modular for integer targets)
                  T w = as_int ? ((k.s || k.f) ? static_cast<T>((int64_t)wanti[i]) : static_cast<T>(wanti[i])) : static_cast<T>(want[i]); ok = got[i] == w; }
              if (!ok) { if (!bad) first = std::string("vector<") + name + "> from tag " + std::to_string(k.tag) + " with " + std::to_string(n) + " elements"; ++bad; } }
        catch (const std::exception& e) { if (getenv("VXV")) std::cerr << name << " tag " << (int)k.tag << " n " << n << ": " << e.what() << "\n"; if (!bad) first = std::string(e.what()) + " for vector<" + name + "> from tag " + std::to_string(k.tag); ++bad; }
    }
}
int main(int argc, char** argv)
{
    if (argc < 3) return 2;
    run<int8_t>("int8_t"); run<int16_t>("int16_t"); run<int32_t>("int32_t"); run<int64_t>("int64_t"); run<uint8_t>("uint8_t"); run<uint16_t>("uint16_t"); run<uint32_t>("uint32_t"); run<uint64_t>("uint64_t"); run<float>("float"); run<double>("double");
    if (bad) VX_REPRO(bad << " of " << total << " typed arrays arrive differently in the vector, first: " << first);
    VX_NOREPRO("all " << total << " typed arrays arrive element by element in the vector, without sanitizer reports");
}
