// replay for unit cbor_head: runs the verifier's counterexample on the real template instantiations
#include <jsoncons/json.hpp>
#include <jsoncons_ext/cbor/cbor.hpp>
#include "replay_util.hpp"
extern "C" {
#include "spec_cbor.h"
}
using namespace jsoncons;
int main(int argc, char** argv)
{
    if (argc < 3) return 2;
    std::string h = argv[1];
    vx_replay_inputs in; if (!in.load(argv[2])) return 2;
    if (h == "read_uint64" || h == "read_int64") {
        size_t n = in.u64("vx_src_n"), pos = in.u64("vx_src_pos");
        auto all = in.bytes("vx_src", 24);
        std::vector<uint8_t> data(all.begin() + pos, all.begin() + n);
        cbor::basic_cbor_parser<bytes_source> p{bytes_source(data)};
        std::error_code ec;
        size_t avail = data.size();
        if (h == "read_uint64") {
            uint64_t v = p.read_uint64(ec);
            if (avail == 0) { if (!ec) VX_REPRO("empty input accepted"); VX_NOREPRO("eof reported"); }
            int nb = spec_cbor_arg_bytes(data[0] & 0x1f);
            if (nb < 0) { if (!ec) VX_REPRO("reserved additional information decoded as " << v); VX_NOREPRO("rejected"); }
            if (avail < 1 + (size_t)nb) { if (!ec) VX_REPRO("truncated argument accepted"); VX_NOREPRO("eof reported"); }
            uint64_t want = nb == 0 ? (uint64_t)(data[0] & 0x1f) : spec_be(&data[1], nb);
            if (ec || v != want) VX_REPRO("argument decoded as " << v << " expected " << want << " ec=" << ec.message());
            VX_NOREPRO("value ok");
        } else {
            int64_t v = p.read_int64(ec);
            if (avail == 0) { if (!ec) VX_REPRO("empty input accepted"); VX_NOREPRO("eof reported"); }
            int major = data[0] >> 5; int nb = spec_cbor_arg_bytes(data[0] & 0x1f);
            if (major > 1) VX_NOREPRO("not an integer item");
            if (nb < 0) { if (!ec) VX_REPRO("reserved additional information decoded as " << v); VX_NOREPRO("rejected"); }
            if (avail < 1 + (size_t)nb) { if (!ec) VX_REPRO("truncated argument accepted"); VX_NOREPRO("eof reported"); }
            uint64_t arg = nb == 0 ? (uint64_t)(data[0] & 0x1f) : spec_be(&data[1], nb);
            if (arg > (uint64_t)INT64_MAX) { if (!ec) VX_REPRO("argument " << arg << " beyond int64 decoded as " << v); VX_NOREPRO("rejected"); }
            int64_t want = major == 1 ? -1 - (int64_t)arg : (int64_t)arg;
            if (ec || v != want) VX_REPRO("decoded as " << v << " expected " << want);
            VX_NOREPRO("value ok");
        }
    }
    if (h == "write_type_and_length" || h == "lemma_roundtrip") {
        uint8_t m = (uint8_t)in.u64("m"); uint64_t len = in.u64(h == "lemma_roundtrip" ? "x" : "len");
        std::vector<uint8_t> out;
        cbor::basic_cbor_encoder<bytes_sink<std::vector<uint8_t>>> enc(out);
        enc.write_type_and_length(m, len);
        enc.flush();
        uint8_t exp[9]; int k = spec_cbor_head((uint8_t)(m >> 5), len, exp);
        if (out.size() != (size_t)k || std::memcmp(out.data(), exp, k) != 0)
            VX_REPRO("write_type_and_length(0x" << std::hex << (int)m << ", " << std::dec << len << ") wrote " << out.size() << " bytes, RFC 8949 preferred head has " << k);
        cbor::basic_cbor_parser<bytes_source> p{bytes_source(out)};
        std::error_code ec; uint64_t y = p.read_uint64(ec);
        if (ec || y != len) VX_REPRO("read_uint64(write(..)) = " << y << " != " << len);
        VX_NOREPRO("head ok");
    }
    VX_NOREPRO("harness " << h << " has no replay");
}
