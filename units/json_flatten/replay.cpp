// replay for unit json_flatten: documents nested 200000 deep (arrays only, objects only, alternating, objects at every third level; json and ojson) are built
// iteratively and destroyed on a thread with a 512 KB stack, in a child process.  A destructor that recurses with the nesting depth overflows that stack.
#include <jsoncons/json.hpp>
#include "replay_util.hpp"
#include <pthread.h>
#include <sys/wait.h>
#include <unistd.h>
using namespace jsoncons;
template <class J> static void build_and_destroy(int pattern, size_t depth)
{
    J v(1);
    for (size_t i = 0; i < depth; ++i) {
        bool obj = pattern == 1 || (pattern == 2 && i % 2) || (pattern == 3 && i % 3 == 0);
        if (obj) { J o(json_object_arg); o.try_emplace("k", std::move(v)); o.try_emplace("z", 2); v = std::move(o); }
        else { J a(json_array_arg); a.push_back(0); a.push_back(std::move(v)); v = std::move(a); }
    }
}   // v destroyed here
struct job { int pattern; int ordered; };
static void* run(void* p) { job* j = (job*)p; if (j->ordered) build_and_destroy<ojson>(j->pattern, 200000); else build_and_destroy<json>(j->pattern, 200000); return nullptr; }
int main(int argc, char** argv)
{
    if (argc < 3) return 2;
    int bad = 0, total = 0; std::string first;
    for (int ordered = 0; ordered < 2; ++ordered) for (int pattern = 0; pattern < 4; ++pattern) {
        ++total; pid_t pid = fork();
        if (pid == 0) {
            job j{pattern, ordered}; pthread_attr_t at; pthread_attr_init(&at); pthread_attr_setstacksize(&at, 512 * 1024);
            pthread_t t; if (pthread_create(&t, &at, run, &j) != 0) _exit(3); pthread_join(t, nullptr); _exit(0);
        }
        int st = 0; waitpid(pid, &st, 0);
        if (!(WIFEXITED(st) && WEXITSTATUS(st) == 0)) { if (!bad) first = std::string(ordered ? "ojson" : "json") + " nesting pattern " + std::to_string(pattern) + (WIFSIGNALED(st) ? " killed by signal " + std::to_string(WTERMSIG(st)) : " exit " + std::to_string(WEXITSTATUS(st))); ++bad; }
    }
    if (bad) VX_REPRO(bad << " of " << total << " destructions of a 200000-deep document overflowed a 512 KB stack, first: " << first);
    VX_NOREPRO("all " << total << " destructions of 200000-deep documents ran in a 512 KB stack");
}
