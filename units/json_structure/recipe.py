# U-PSOME (DESIGN 6): the structural level of basic_json_parser: one iteration of the main loop of parse_some_ (program slice: the loop is cut to a single
# step, "while (cond)" -> "if (cond)"; whole-run conformance follows by induction over the steps), begin_member_or_element, after_value
from core import FuncSpec, CopySpec, EnumSpec, Harness
J = 'include/jsoncons/json_parser.hpp'
AL = {'ec': '(*ec_p)', 'state_': '(self->state_)', 'more_': '(self->more_)', 'done_': '(self->done_)', 'cursor_mode_': '(self->cursor_mode_)', 'allow_comments_': '(self->allow_comments_)',
      'allow_trailing_comma_': '(self->allow_trailing_comma_)', 'input_ptr_': '(self->input_ptr_)', 'input_end_': '(self->input_end_)', 'position_': '(self->position_)', 'line_': '(self->line_)',
      'mark_position_': '(self->mark_position_)', 'begin_position_': '(self->begin_position_)', 'level_': '(self->level_)', 'number_state_': '(self->number_state_)',
      'string_state_': '(self->string_state_)', 'escape_tag_': '(self->escape_tag_)'}
N = 200
RULES = [
    (r'while \(\(input_ptr_ < local_input_end\) && more_\)', 'if ((input_ptr_ < local_input_end) && more_)', 0, 1),
    (r'more_ = err_handler_\(json_errc::(\w+), \*this\);', r'more_ = vx_err_handler_at(self, json_errc_\1);', 0, N), (r'err_handler_\(json_errc::(\w+), \*this\);', r'vx_err_handler_at(self, json_errc_\1);', 0, N),
    (r'json_errc::(\w+)', r'json_errc_\1', 0, N),
    (r'visitor\.flush\(\);', 'vx_record(self, A_FLUSH);', 0, 2),
    (r'skip_space\(&input_ptr_\);', 'vx_callee(self, A_SKIP_WS, ec_p, true);', 0, N),
    (r'(begin|end)_(object|array)\(visitor, ec\);', lambda m: 'vx_callee(self, A_%s_%s, ec_p, false);' % (m.group(1).upper(), m.group(2).upper()), 0, N),
    (r'input_ptr_ = parse_string\(input_ptr_, visitor, ec\);', 'vx_callee(self, vx_buf_clears ? A_STRING : A_RESUME_STRING, ec_p, true);', 0, N),
    (r'input_ptr_ = parse_number\(input_ptr_, visitor, ec\);', 'vx_callee(self, !vx_buf_clears ? A_RESUME_NUMBER : number_state_ == parse_number_state_minus ? A_NUMBER_MINUS : number_state_ == parse_number_state_zero ? A_NUMBER_ZERO : A_NUMBER_DIGIT, ec_p, true);', 0, N),
    (r'parse_null\(visitor, ec\);', 'vx_callee(self, A_NULL, ec_p, true);', 0, N), (r'input_ptr_ = parse_true\(input_ptr_, visitor, ec\);', 'vx_callee(self, A_TRUE, ec_p, true);', 0, N),
    (r'input_ptr_ = parse_false\(input_ptr_, visitor, ec\);', 'vx_callee(self, A_FALSE, ec_p, true);', 0, N),
    (r'begin_member_or_element\(ec\);', 'vx_record(self, A_COMMA); begin_member_or_element(self, ec_p);', 0, 1),
    (r'push_state\(', 'VX_PUSH_STATE(', 0, N), (r'pop_state\(\)', 'vx_pop_state()', 0, N), (r'parent\(\)', 'vx_top.type_', 0, N),
    (r'buffer_\.clear\(\);', 'vx_buf_clear();', 0, N), (r'buffer_\.push_back\(', 'vx_buf_push(', 0, N),
    (r'string_state_ = parse_string_state\{\};', 'string_state_ = 0;', 0, N), (r'parse_number_state::(\w+)', r'parse_number_state_\1', 0, N), (r'semantic_tag::(\w+)', r'semantic_tag_\1', 0, N),
    (r'state_ = parse_state::slash;', 'vx_record(self, A_SLASH); state_ = parse_state_slash;', 0, N),
    (r'state_ = parse_state::expect_value;', 'vx_record(self, A_COLON); state_ = parse_state_expect_value;', 0, 1),
    (r'parse_state::(\w+)', r'parse_state_\1', 0, 400),
    (r'visitor\.bool_value\((true|false),\s*semantic_tag_none, \*this, ec\);', 'vx_record(self, A_OTHER);', 0, 2), (r'visitor\.null_value\(semantic_tag_none, \*this, ec\);', 'vx_record(self, A_OTHER);', 0, 1),
]
S0 = '__CPROVER_old(self->state_)'
C = 'vx_buf[vx_off]'
G = 'vx_gpos(%s)' % S0
PK = 'vx_parent_kind(__CPROVER_old(vx_top.type_))'
EXP = 'spec_json_action(%s, %s, %s, self->allow_trailing_comma_, &vx_errs)' % (G, C, PK)
PO = '(size_t)(self->input_ptr_ - vx_buf)'
STEP = [
    ('requires', 'self->input_ptr_ == vx_buf + vx_off && vx_off < vx_n && vx_n <= 100000000 && self->input_end_ == vx_buf + vx_n && self->more_ && *ec_p == 0 && vx_acts == 0 && !vx_err_called && vx_buf_clears == 0'),
    ('requires', 'self->state_ <= parse_state_done && self->state_ != parse_state_root && self->state_ != parse_state_object && self->state_ != parse_state_array && self->state_ != parse_state_done && self->state_ != parse_state_member_name'),
    ('requires', 'vx_depth >= 1 && vx_depth < 1000000 && vx_pushes == 0 && vx_pops == 0 && self->position_ <= SIZE_MAX / 2 && self->line_ <= SIZE_MAX / 2 && !vx_lenient'),
    ('assigns', '*ec_p, self->state_, self->more_, self->done_, self->input_ptr_, self->position_, self->line_, self->mark_position_, self->begin_position_, self->number_state_, self->string_state_, self->escape_tag_, '
                'vx_act, vx_acts, vx_act_off, vx_act_state, vx_act_number_state, vx_err_called, vx_err_code, vx_buf_clears, vx_buf_first, vx_buf_pushes, vx_depth, vx_top, vx_pushes, vx_pops'),
    ('ensures', '[C02] at a structural grammar position the parser does, with the next character, exactly what the RFC 8259 action table prescribes (which token starts, which bracket closes, separator, or which error); the options allow_trailing_comma and allow_comments relax only their own entries',
     '%s >= 0 ==> (vx_acts >= 1 && vx_act == %s)' % (G, EXP)),
    ('ensures', '[C02] an error is reported through the error code and stops the parser (default error handler); nothing else sets the error code',
     '(vx_act >= A_ERR ==> (*ec_p == vx_act - A_ERR && !self->more_)) && ((vx_acts >= 1 && (vx_act == A_SLASH || vx_act == A_COLON || vx_act == A_FLUSH)) ==> *ec_p == 0)'),
    ('ensures', '[C02][C03] a bracket, a quotation mark or the first character of a number is consumed before the token function takes over; a literal is handed over whole; the scratch buffer of a number starts with its first character',
     '((%s >= 0 && (vx_act == A_BEGIN_OBJECT || vx_act == A_BEGIN_ARRAY || vx_act == A_END_OBJECT || vx_act == A_END_ARRAY || vx_act == A_STRING || vx_act == A_NUMBER_MINUS || vx_act == A_NUMBER_ZERO || vx_act == A_NUMBER_DIGIT)) ==> vx_act_off == vx_off + 1) '
     '&& ((vx_act == A_NULL || vx_act == A_TRUE || vx_act == A_FALSE) ==> vx_act_off == vx_off) '
     '&& ((vx_act == A_NUMBER_MINUS || vx_act == A_NUMBER_ZERO || vx_act == A_NUMBER_DIGIT) ==> (vx_buf_clears == 1 && vx_buf_pushes == 1 && vx_buf_first == %s && vx_act_state == parse_state_number)) '
     '&& (vx_act == A_STRING ==> (vx_buf_clears == 1 && vx_buf_pushes == 0 && vx_act_state == parse_state_string))' % (G, C)),
    ('ensures', '[C02] a member name is announced as such (the state member_name is pushed) exactly at the name positions of an object',
     '(%s >= 0 && vx_act == A_STRING) ==> ((vx_pushes == 1) == (%s == G_NAME_OR_END || %s == G_NAME))' % (G, G, G)),
    ('ensures', '[C02] name-separator: one character, then a value is expected; value-separator: one character, then a member name (object) or a value (array) is expected',
     '(vx_act == A_COLON ==> (%s == vx_off + 1 && self->state_ == parse_state_expect_value)) && ((vx_act == A_COMMA && *ec_p == 0) ==> (%s == vx_off + 1 && (%s == P_OBJECT ? self->state_ == parse_state_expect_member_name : %s == P_ARRAY ? self->state_ == parse_state_expect_value : 1)))' % (PO, PO, PK, PK)),
    ('ensures', '[C02] "/" is not JSON: the state is saved and the next character decides; with allow_comments off "/*" and "//" are illegal_comment, with it on they open a comment; anything else after "/" is a syntax error',
     '(vx_act == A_SLASH ==> (vx_pushes == 1 && vx_top.type_ == %s && self->state_ == parse_state_slash && %s == vx_off + 1)) '
     '&& ((%s == parse_state_slash && (%s == \'*\' || %s == \'/\')) ==> ((self->allow_comments_ ==> (*ec_p == 0 && self->state_ == (%s == \'*\' ? parse_state_slash_star : parse_state_slash_slash) && %s == vx_off + 1)) && (!self->allow_comments_ ==> (*ec_p) == json_errc_illegal_comment))) '
     '&& ((%s == parse_state_slash && %s != \'*\' && %s != \'/\') ==> *ec_p == json_errc_syntax_error)' % (S0, PO, S0, C, C, C, PO, S0, C, C)),
    ('ensures', '[C03] a token interrupted by the end of the previous chunk is resumed by its own function', '(%s == parse_state_string ==> vx_act == A_RESUME_STRING) && (%s == parse_state_number ==> vx_act == A_RESUME_NUMBER)' % (S0, S0)),
    ('ensures', '[C02] after the root value the parser flushes and is done', '%s == parse_state_accept ==> (vx_act == A_FLUSH && self->done_ && self->state_ == parse_state_done && !self->more_)' % S0),
    ('ensures', '[C05] the cursor stays inside the chunk', '__CPROVER_same_object(self->input_ptr_, vx_buf) && %s <= vx_n' % PO),
]
KEEP = '__CPROVER_old(vx_acts) >= 1 ==> (vx_act == __CPROVER_old(vx_act) && vx_act_off == __CPROVER_old(vx_act_off) && vx_act_state == __CPROVER_old(vx_act_state) && vx_acts >= __CPROVER_old(vx_acts))'
BMOE = [
    ('requires', '*ec_p == 0 && self->more_ && vx_depth >= 1 && !vx_lenient && vx_acts >= 0 && vx_acts <= 16'),
    ('ensures', 'ghost: the first recorded action of the iteration is kept', KEEP),
    ('assigns', '*ec_p, self->state_, self->more_, vx_act, vx_acts, vx_act_off, vx_act_state, vx_act_number_state, vx_err_called, vx_err_code'),
    ('ensures', '[C02] after a value-separator a member name is expected inside an object and a value inside an array; at the root a comma is a syntax error only if the stack is corrupt',
     '(vx_top.type_ == parse_state_object ==> (self->state_ == parse_state_expect_member_name && *ec_p == 0)) && (vx_top.type_ == parse_state_array ==> (self->state_ == parse_state_expect_value && *ec_p == 0)) '
     '&& ((vx_top.type_ != parse_state_object && vx_top.type_ != parse_state_array && vx_top.type_ != parse_state_root) ==> *ec_p == json_errc_syntax_error)'),
]
AFTERV = [
    ('requires', '*ec_p == 0 && self->more_ && vx_depth >= 1 && !vx_lenient && vx_acts == 0 && !vx_err_called'),
    ('assigns', '*ec_p, self->state_, self->more_, vx_act, vx_acts, vx_act_off, vx_act_state, vx_act_number_state, vx_err_called, vx_err_code'),
    ('ensures', '[C02] after a value: inside a container a separator or the end is expected; at the root the text is accepted',
     '((vx_top.type_ == parse_state_object || vx_top.type_ == parse_state_array) ==> (self->state_ == parse_state_expect_comma_or_end && *ec_p == 0)) && (vx_top.type_ == parse_state_root ==> (self->state_ == parse_state_accept && *ec_p == 0)) '
     '&& ((vx_top.type_ != parse_state_object && vx_top.type_ != parse_state_array && vx_top.type_ != parse_state_root) ==> *ec_p == json_errc_syntax_error)'),
]
SPECS = [
    EnumSpec('parse_state', J), EnumSpec('parse_number_state', J), EnumSpec('json_errc', 'include/jsoncons/json_error.hpp'), EnumSpec('semantic_tag', 'include/jsoncons/semantic_tag.hpp'),
    CopySpec('illegal_control', J, r'#define JSONCONS_ILLEGAL_CONTROL_CHARACTER', r'case 0x1f\s*\n', include_end=True),
    FuncSpec('begin_member_or_element', J, r'void begin_member_or_element\(std::error_code& ec\)', count=1, csig='void begin_member_or_element(struct json_parser* self, int* ec_p)', contract=BMOE, aliases=AL, rules=RULES),
    FuncSpec('after_value', J, r'void after_value\(std::error_code& ec\)', count=1, csig='void after_value(struct json_parser* self, int* ec_p)', contract=AFTERV, aliases=AL, rules=RULES),
    FuncSpec('parse_step', J, r'void parse_some_\(basic_json_visitor<char_type>& visitor, std::error_code& ec\)', count=1, csig='void parse_step(struct json_parser* self, int* ec_p)', contract=STEP, aliases=AL, rules=RULES,
             slice_from=r'while \(\(input_ptr_ < local_input_end\) && more_\)', prologue='const char* local_input_end = input_end_;'),
]
HARNESSES = [
    Harness('parse_step', 'h_parse_step', enforce='parse_step', replace=['begin_member_or_element'], method='LF', props=['C02', 'C03'], timeout=1500,
            note='one iteration of the main loop of parse_some_ from every state and every next character; the token functions and begin/end_object/array enter as events (each is under contract in its own unit)'),
    Harness('begin_member_or_element', 'h_begin_member_or_element', enforce='begin_member_or_element', method='LF', props=['C02']),
    Harness('after_value', 'h_after_value', enforce='after_value', method='LF', props=['C02']),
]
