# U-JDEC (C02, C10): json_decoder's stack discipline
from core import FuncSpec, CopySpec, EnumSpec, Harness
D = 'include/jsoncons/json_decoder.hpp'
K = 'json_structure_kind_'
RULES = [
    (r'JSONCONS_VISITOR_RETURN;', 'return;', 1, 4), (r'json_structure_kind::(\w+)', r'json_structure_kind_\1', 1, 8),
    (r'structure_stack_\.back\(\)\.structure_kind', 'vx_top_kind', 0, 4), (r'structure_stack_\.back\(\)\.structure_index', 'vx_top_index', 0, 2), (r'structure_stack_\.size\(\)', 'vx_depth', 0, 4),
    (r'structure_stack_\.emplace_back\((json_structure_kind_\w+), item_stack_\.size\(\)\);', r'vx_push_frame(\1, vx_items);', 0, 2),
    (r'item_stack_\.emplace_back\(std::move\(name_\), index_(\+\+)?, json_(?:array|object)_arg, tag\);', r'vx_push_item(true, vx_index_\1, true);', 0, 1),
    (r'item_stack_\.emplace_back\(key_type\(alloc_\), 0, json_(?:array|object)_arg, tag\);', 'vx_push_item(false, 0, true);', 0, 1),
    (r'item_stack_\.emplace_back\(std::move\(name_\), index_(\+\+)?, sv, tag\);', r'vx_push_item(true, vx_index_\1, false);', 0, 1), (r'item_stack_\.emplace_back\(key_type\(alloc_\), 0, sv, tag\);', 'vx_push_item(false, 0, false);', 0, 1),
    (r'auto& structure = structure_stack_\.back\(\);', '', 0, 1), (r'structure\.structure_kind', 'VX_STRUCT_KIND', 0, 2),
    (r'auto& structure = structure_stack_\[vx_depth-2\];', '', 0, 1), (r'auto& (?:arr|obj) = item_stack_\[structure_index\]\.value;', '', 0, 1),
    (r'item_stack_\.size\(\)', 'vx_items', 0, 4), (r'auto first = item_stack_\.begin\(\) \+ ([^;]+);', r'size_t first = \1;', 0, 1), (r'auto last = first \+ size;', 'size_t last = first + size;', 0, 1),
    (r'arr\.reserve\(size\);', 'vx_reserves++; vx_reserved = size;', 0, 1), (r'for \(auto it = ([^;]+); it != last; \+\+it\)', r'for (size_t vx_it = \1; vx_it != last; ++vx_it)', 0, 1),
    (r'arr\.push_back\(std::move\(\(\*it\)\.value\)\);', 'vx_move_child(vx_it);', 0, 1),
    (r'obj\.template cast<typename Json::object_storage>\(\)\.value\(\)\.uninitialized_init\(\s*&item_stack_\[([^\]]+)\], ([^;]+)\);', r'vx_inits++; vx_init_first = (\1); vx_init_size = (\2);', 0, 1),
    (r'item_stack_\.erase\(first, item_stack_\.end\(\)\);', 'vx_erases++; vx_erase_first = first; vx_items = first;', 0, 1),
    (r'result_ = std::move\(item_stack_\.front\(\)\.value\);\s*item_stack_\.pop_back\(\);', 'vx_set_result(0); vx_items--;', 0, 1), (r'result_ = Json\(sv, tag, alloc_\);', 'vx_set_result((size_t)-1);', 0, 1), (r'is_valid_ = true;', 'vx_is_valid = true;', 0, 1),
    (r'structure_stack_\.pop_back\(\);', 'vx_frame_pops++; vx_depth--;', 0, 1),
]
# representation invariant of the two stacks as far as one call can see it
INV = '(vx_depth >= 1 && vx_depth <= 100000000 && vx_items <= 100000000 && vx_index_ <= SIZE_MAX / 2 && vx_top_kind <= %sobject_kind && ((vx_depth == 1) == (vx_top_kind == %sroot_kind)) && (vx_top_kind == %sroot_kind ==> vx_items == 0) && (vx_top_kind != %sroot_kind ==> (vx_top_index < vx_items && vx_parent_kind <= %sobject_kind && ((vx_depth == 2) == (vx_parent_kind == %sroot_kind)) && (vx_parent_kind == %sroot_kind ==> vx_top_index == 0))))' % ((K,) * 7)
CLEAN = 'vx_item_pushes == 0 && vx_frame_pushes == 0 && vx_frame_pops == 0 && vx_moves == 0 && vx_w_moves == 0 && !vx_order_bad && vx_reserves == 0 && vx_inits == 0 && vx_erases == 0 && !vx_result_set && !vx_is_valid'
ASG = 'vx_items, vx_index_, vx_top_kind, vx_parent_kind, vx_top_index, vx_depth, vx_is_valid, vx_result_set, vx_result_from, vx_item_pushes, vx_frame_pushes, vx_frame_pops, vx_pushed_named, vx_pushed_container, vx_pushed_index, vx_frame_index, vx_frame_kind, vx_moves, vx_next_pos, vx_w_moves, vx_w_pos, vx_order_bad, vx_reserved, vx_reserves, vx_inits, vx_erases, vx_init_first, vx_init_size, vx_erase_first'
def BEGIN(kind):
    return [('requires', INV + ' && ' + CLEAN), ('assigns', ASG),
            ('ensures', '[C02] opening a container pushes its own item (named with the pending member name iff the container is a member of an object) and a frame that remembers the position of that item',
             'vx_item_pushes == 1 && vx_pushed_container && vx_pushed_named == (__CPROVER_old(vx_top_kind) == %sobject_kind) && vx_frame_pushes == 1 && vx_frame_kind == %s%s_kind && vx_frame_index == __CPROVER_old(vx_items) && vx_items == __CPROVER_old(vx_items) + 1 && vx_depth == __CPROVER_old(vx_depth) + 1' % (K, K, kind)),
            ('ensures', '[C02] members arrive with consecutive arrival indices (the tie-break of first-duplicate-wins)', '(vx_pushed_named ==> (vx_pushed_index == __CPROVER_old(vx_index_) && vx_index_ == __CPROVER_old(vx_index_) + 1)) && (!vx_pushed_named ==> vx_index_ == __CPROVER_old(vx_index_))')]
def END(kind):
    arr = kind == 'array'
    c = [('requires', INV + ' && ' + CLEAN + ' && vx_top_kind == %s%s_kind' % (K, kind) + (' && vx_next_pos == vx_top_index + 1' if arr else '')), ('assigns', ASG),
         ('ensures', '[C02][C10] closing a container: its children are exactly the items above its own item; the container is sized by their number (what the input declared plays no part), they are removed from the stack, the frame is popped',
          'vx_frame_pops == 1 && vx_depth == __CPROVER_old(vx_depth) - 1 && vx_items == __CPROVER_old(vx_top_index) + (__CPROVER_old(vx_parent_kind) == %sroot_kind ? 0 : 1) '
          '&& (__CPROVER_old(vx_items) > __CPROVER_old(vx_top_index) + 1 ? (vx_erases == 1 && vx_erase_first == __CPROVER_old(vx_top_index) + 1 && %s) : (vx_erases == 0 && %s))' % (K,
             ('vx_reserves == 1 && vx_reserved == __CPROVER_old(vx_items) - __CPROVER_old(vx_top_index) - 1 && vx_moves == vx_reserved && !vx_order_bad' if arr else 'vx_inits == 1 && vx_init_first == __CPROVER_old(vx_top_index) + 1 && vx_init_size == __CPROVER_old(vx_items) - __CPROVER_old(vx_top_index) - 1'),
             ('vx_moves == 0' if arr else 'vx_inits == 0'))),
         ('ensures', '[C02] the finished outermost container becomes the result, and only then is the decoder valid', '(__CPROVER_old(vx_parent_kind) == %sroot_kind) ? (vx_result_set && vx_result_from == 0 && vx_is_valid) : (!vx_result_set && !vx_is_valid)' % K)]
    if arr:
        c.append(('ensures', '[C02] every child (watched: any) is moved into the array exactly once, at the position it arrived in',
                  '(vx_w > __CPROVER_old(vx_top_index) && vx_w < __CPROVER_old(vx_items)) ==> (vx_w_moves == 1 && vx_w_pos == vx_w - __CPROVER_old(vx_top_index) - 1)'))
    return c
LOOP = '''__CPROVER_assigns(vx_it, vx_moves, vx_next_pos, vx_w_moves, vx_w_pos, vx_order_bad)
  __CPROVER_loop_invariant(vx_it >= first && vx_it <= last && vx_moves == vx_it - first && vx_next_pos == vx_it && !vx_order_bad && vx_w_moves == ((vx_w >= first && vx_w < vx_it) ? 1 : 0) && (vx_w_moves == 1 ==> vx_w_pos == vx_w - first))
  __CPROVER_decreases(last - vx_it)'''
SCALAR = [('requires', INV + ' && ' + CLEAN), ('assigns', ASG),
          ('ensures', '[C02] a scalar inside a container becomes one item on top of the stack, named iff the container is an object; at the root it is the result itself',
           '(__CPROVER_old(vx_top_kind) == %sroot_kind) ? (vx_result_set && vx_is_valid && vx_item_pushes == 0) : (vx_item_pushes == 1 && !vx_pushed_container && vx_pushed_named == (__CPROVER_old(vx_top_kind) == %sobject_kind) && vx_items == __CPROVER_old(vx_items) + 1 && !vx_result_set && vx_depth == __CPROVER_old(vx_depth))' % (K, K))]
def V(name, anchor, contract, loops=None, extra=()):
    return FuncSpec(name, D, anchor, count=1, csig='void %s(void)' % name, contract=contract, rules=list(extra) + RULES, loops=loops)
SPECS = [
    EnumSpec('json_structure_kind', D),
    V('visit_begin_array', r'visit_begin_array\(semantic_tag tag, const ser_context&, std::error_code&\) final', BEGIN('array')),
    V('visit_begin_object', r'visit_begin_object\(semantic_tag tag, const ser_context&, std::error_code&\) final', BEGIN('object')),
    V('visit_end_array', r'visit_end_array\(const ser_context&, std::error_code&\) final', END('array'), loops={0: LOOP, 'count': 1}, extra=[(r'\bstructure\.structure_kind', 'vx_parent_kind', 1)]),
    V('visit_end_object', r'visit_end_object\(const ser_context&, std::error_code&\) final', END('object'), extra=[(r'\bstructure\.structure_kind', 'vx_parent_kind', 1)]),
    V('visit_string', r'visit_string\(const string_view_type& sv, semantic_tag tag, const ser_context&, std::error_code&\) final', SCALAR, extra=[(r'\bstructure\.structure_kind', 'vx_top_kind', 1)]),
]
SITE_CHECKS = [
    {'file': D, 'pattern': r'visit_begin_(?:array|object)\(std::size_t', 'count': 0, 'props': ['C10'], 'what': 'json_decoder does not override the begin events that carry a declared length: the base class forwards them to the ones without length, so a declared length never sizes anything'},
]
HARNESSES = [
    Harness('visit_begin_array', 'h_visit_begin_array', enforce='visit_begin_array', method='LF', props=['C02']),
    Harness('visit_begin_object', 'h_visit_begin_object', enforce='visit_begin_object', method='LF', props=['C02']),
    Harness('visit_end_array', 'h_visit_end_array', enforce='visit_end_array', loop_contracts=True, method='LC', props=['C02', 'C10'], expect_classes={'loop_invariant_step': 1}),
    Harness('visit_end_object', 'h_visit_end_object', enforce='visit_end_object', method='LF', props=['C02', 'C10'], note='the de-duplication and sorting of the members (uninitialized_init) is under contract in unit object_dedup'),
    Harness('visit_string', 'h_visit_string', enforce='visit_string', method='LF', props=['C02'], note='representative of the ten scalar events, which share this shape'),
]
