/* unit json_structure: one iteration of the main loop of basic_json_parser::parse_some_ (the structural level of the JSON parser: which token may follow
 * which, commas, colons, brackets, comments, trailing commas) against the RFC 8259 action table S-JSONTXT; begin_member_or_element and after_value */
#include "vx_common.h"
#include "model_stack.h"
#include "spec_json.h"
#include <stdlib.h>
/*@ENUM parse_state@*/
/*@ENUM parse_number_state@*/
/*@ENUM json_errc@*/
/*@ENUM semantic_tag@*/
/*@COPY illegal_control@*/
struct json_parser { uint8_t state_; bool more_, done_, cursor_mode_, allow_comments_, allow_trailing_comma_; const char* input_ptr_; const char* input_end_;
                     size_t position_, line_, mark_position_, begin_position_; int level_; uint8_t number_state_, string_state_, escape_tag_; };
static char* vx_buf; static size_t vx_n, vx_off;
/* what the iteration did: first action, number of actions, pointer offset at the time of the first action */
static int vx_act, vx_acts; static size_t vx_act_off; static uint8_t vx_act_state, vx_act_number_state;
static bool vx_lenient, vx_err_called; static int vx_err_code;
static unsigned vx_buf_clears; static char vx_buf_first; static size_t vx_buf_pushes;
static void vx_record(struct json_parser* self, int a) { if (vx_acts == 0) { vx_act = a; vx_act_off = (size_t)(self->input_ptr_ - vx_buf); vx_act_state = self->state_; vx_act_number_state = self->number_state_; } vx_acts++; }
/* err_handler_: the library default (default_json_parsing::operator(), json_options.hpp) lets the parser go on exactly for illegal_comment; vx_lenient models any other handler */
static bool vx_err_handler_at(struct json_parser* self, int code) { if (code != json_errc_illegal_comment) vx_record(self, A_ERR + code); vx_err_called = true; vx_err_code = code; bool r = nondet_bool(); __CPROVER_assume(r == (code == json_errc_illegal_comment) || vx_lenient); return r; }
/* callees: each is under contract in its own unit (json_depth, json_string, json_number, json_literals); here they are events that may fail and that
 * move the cursor / state the way their contracts allow (anywhere up to the end of the chunk, any state) */
static void vx_callee(struct json_parser* self, int a, int* ec_p, bool moves)
{
    vx_record(self, a);
    if (moves) { size_t k = nondet_size(); __CPROVER_assume(k >= (size_t)(self->input_ptr_ - vx_buf) && k <= vx_n); self->input_ptr_ = vx_buf + k; }
    self->state_ = nondet_u8(); __CPROVER_assume(self->state_ <= parse_state_done);
    if (nondet_bool()) { int e = nondet_int(); __CPROVER_assume(e != 0); *ec_p = e; self->more_ = false; } else if (nondet_bool()) self->more_ = !self->cursor_mode_;
}
#define VX_PUSH_STATE(x) VX_STACK_EMPLACE((x), 0)
static uint8_t vx_pop_state(void) { uint8_t t = (uint8_t)vx_top.type_; VX_STACK_POP(); return t; }
static void vx_buf_clear(void) { vx_buf_clears++; vx_buf_pushes = 0; }
static void vx_buf_push(char c) { if (vx_buf_pushes == 0) vx_buf_first = c; vx_buf_pushes++; }
static struct spec_json_errs vx_errs;
static void vx_fill_errs(void)
{
    vx_errs.illegal_control_character = json_errc_illegal_control_character; vx_errs.syntax_error = json_errc_syntax_error; vx_errs.unexpected_rbrace = json_errc_unexpected_rbrace;
    vx_errs.unexpected_rbracket = json_errc_unexpected_rbracket; vx_errs.expected_value = json_errc_expected_value; vx_errs.single_quote = json_errc_single_quote; vx_errs.extra_comma = json_errc_extra_comma;
    vx_errs.expected_key = json_errc_expected_key; vx_errs.expected_colon = json_errc_expected_colon; vx_errs.expected_comma_or_rbracket = json_errc_expected_comma_or_rbracket;
    vx_errs.expected_comma_or_rbrace = json_errc_expected_comma_or_rbrace; vx_errs.unexpected_character = json_errc_unexpected_character;
}
/* representation: which grammar position a parser state stands for (-1: not a structural position) */
static int vx_gpos(uint8_t st)
{
    switch (st) { case parse_state_start: return G_VALUE_ROOT; case parse_state_expect_value: return G_VALUE; case parse_state_expect_value_or_end: return G_VALUE_OR_END;
                  case parse_state_expect_member_name_or_end: return G_NAME_OR_END; case parse_state_expect_member_name: return G_NAME; case parse_state_expect_colon: return G_COLON;
                  case parse_state_expect_comma_or_end: return G_SEP_OR_END; default: return -1; }
}
static int vx_parent_kind(int t) { return t == parse_state_array ? P_ARRAY : t == parse_state_object ? P_OBJECT : P_ROOT; }
/*@FUNC begin_member_or_element@*/
/*@FUNC after_value@*/
/*@FUNC parse_step@*/
#ifdef VX_CBMC
static struct json_parser vx_p; static int vx_ec;
static void setup(void)
{
    vx_fill_errs();
    vx_n = nondet_size(); vx_off = nondet_size();
#ifdef VX_SMALL
    __CPROVER_assume(vx_n <= 6);
#endif
    __CPROVER_assume(vx_off <= vx_n && vx_n <= 100000000);
    vx_buf = malloc(vx_n ? vx_n : 1); __CPROVER_assume(vx_buf != 0);
    vx_p.state_ = nondet_u8(); vx_p.more_ = true; vx_p.done_ = false; vx_p.cursor_mode_ = nondet_bool(); vx_p.allow_comments_ = nondet_bool(); vx_p.allow_trailing_comma_ = nondet_bool();
    vx_p.input_ptr_ = vx_buf + vx_off; vx_p.input_end_ = vx_buf + vx_n; vx_p.position_ = nondet_size(); vx_p.line_ = nondet_size(); vx_p.mark_position_ = nondet_size(); vx_p.begin_position_ = nondet_size();
    vx_p.level_ = nondet_int(); vx_p.number_state_ = nondet_u8(); vx_p.string_state_ = nondet_u8(); vx_p.escape_tag_ = nondet_u8();
    vx_act = A_NONE; vx_acts = 0; vx_lenient = false; vx_err_called = false; vx_ec = 0; vx_buf_clears = 0; vx_buf_pushes = 0;
    vx_depth = nondet_size(); vx_top.type_ = nondet_int(); vx_pushes = 0; vx_pops = 0;
}
void h_parse_step(void) { setup(); parse_step(&vx_p, &vx_ec); }
void h_begin_member_or_element(void) { setup(); begin_member_or_element(&vx_p, &vx_ec); }
void h_after_value(void) { setup(); after_value(&vx_p, &vx_ec); }
#endif
