# U-DIGITCLASS-W (C02, C01, C04 for wchar_t text): character classes of the number scanner, wide overloads
from core import FuncSpec, CopySpec, EnumSpec, Harness
R = 'include/jsoncons/utility/read_number.hpp'
DIGITS = CopySpec('digit_tables', R, r'JSONCONS_INLINE_CONSTEXPR uint8_t DIGIT_TYPE_ZERO', r'constexpr bool is_sign\(wchar_t d\)', include_end=False,
                  rules=[(r'JSONCONS_INLINE_CONSTEXPR', 'static const', 7), (r'constexpr bool', 'static bool', 7)], common=True)
RV = '__CPROVER_return_value'
def W(name, want, what):
    return FuncSpec(name + '_w', R, r'constexpr bool %s\(wchar_t d\)' % name, count=1, csig='bool %s_w(int32_t d)' % name,
                    contract=[('assigns', ''), ('ensures', '[C02][C04] for every wide code unit: %s' % what, '(%s != 0) == (%s)' % (RV, want))],
                    rules=[(r'\bis_digit\(d\)', 'is_digit_w(d)', 0, 1), (r'\bis_fp\(d\)', 'is_fp_w(d)', 0, 1)])
SPECS = [
    DIGITS,
    W('is_sign', "d == '+' || d == '-'", 'a sign is + or -'),
    W('is_nonzero_digit', "d >= '1' && d <= '9'", 'a non-zero digit is one of the ASCII characters 1-9'),
    W('is_digit', "d >= '0' && d <= '9'", 'a digit is one of the ASCII characters 0-9 (RFC 8259: DIGIT = %x30-39)'),
    W('is_exp', "d == 'e' || d == 'E'", 'an exponent mark is e or E'),
    W('is_fp', "d == '.' || d == 'e' || d == 'E'", 'a floating-point indicator is . e or E'),
    W('is_digit_or_fp', "(d >= '0' && d <= '9') || d == '.' || d == 'e' || d == 'E'", 'a digit or floating-point indicator'),
]
HARNESSES = [Harness(n, 'h_' + n, enforce=n, method='LF', props=['C02', 'C04', 'C01'], replace=(['is_digit_w', 'is_fp_w'] if n == 'is_digit_or_fp_w' else []))
             for n in ['is_sign_w', 'is_nonzero_digit_w', 'is_digit_w', 'is_exp_w', 'is_fp_w', 'is_digit_or_fp_w']]
