// replay for unit json_pretty_encoder: documents of every nesting shape (arrays in arrays, objects in arrays, arrays in objects, empty containers, scalars
// of every kind, strings with quotes, backslashes, control characters, non-ASCII and astral characters, boundary numbers) are printed by the real
// pretty-printing encoder under combinations of all layout options and parsed back: the value must be equal, the integer / floating distinction intact,
// and printing the parsed value again must reproduce the text byte for byte; the output must also be accepted by an independent strict RFC 8259 syntax checker.
#include <jsoncons/json.hpp>
#include "replay_util.hpp"
using namespace jsoncons;
// minimal strict RFC 8259 syntax checker
struct chk { const std::string& s; size_t p = 0; explicit chk(const std::string& t) : s(t) {}
    void ws() { while (p < s.size() && (s[p] == ' ' || s[p] == '\t' || s[p] == '\n' || s[p] == '\r')) ++p; }
    bool str() { if (p >= s.size() || s[p] != '"') return false; ++p; while (p < s.size() && s[p] != '"') { unsigned char c = (unsigned char)s[p]; if (c < 0x20) return false;
            if (c == '\\') { ++p; if (p >= s.size()) return false; char e = s[p]; if (e == 'u') { for (int i = 1; i <= 4; ++i) if (p + i >= s.size() || !isxdigit((unsigned char)s[p + i])) return false; p += 4; } else if (!strchr("\"\\/bfnrt", e)) return false; } ++p; }
        if (p >= s.size()) return false; ++p; return true; }
    bool num() { size_t q = p; if (p < s.size() && s[p] == '-') ++p; if (p >= s.size()) return false; if (s[p] == '0') ++p; else if (s[p] >= '1' && s[p] <= '9') { while (p < s.size() && isdigit((unsigned char)s[p])) ++p; } else return false;
        if (p < s.size() && s[p] == '.') { ++p; if (p >= s.size() || !isdigit((unsigned char)s[p])) return false; while (p < s.size() && isdigit((unsigned char)s[p])) ++p; }
        if (p < s.size() && (s[p] == 'e' || s[p] == 'E')) { ++p; if (p < s.size() && (s[p] == '+' || s[p] == '-')) ++p; if (p >= s.size() || !isdigit((unsigned char)s[p])) return false; while (p < s.size() && isdigit((unsigned char)s[p])) ++p; } return p > q; }
    bool val(int d) { if (d > 200) return false; ws(); if (p >= s.size()) return false; char c = s[p];
        if (c == '{') { ++p; ws(); if (p < s.size() && s[p] == '}') { ++p; return true; } for (;;) { ws(); if (!str()) return false; ws(); if (p >= s.size() || s[p] != ':') return false; ++p; if (!val(d + 1)) return false; ws(); if (p < s.size() && s[p] == ',') { ++p; continue; } if (p < s.size() && s[p] == '}') { ++p; return true; } return false; } }
        if (c == '[') { ++p; ws(); if (p < s.size() && s[p] == ']') { ++p; return true; } for (;;) { if (!val(d + 1)) return false; ws(); if (p < s.size() && s[p] == ',') { ++p; continue; } if (p < s.size() && s[p] == ']') { ++p; return true; } return false; } }
        if (c == '"') return str(); if (!s.compare(p, 4, "true")) { p += 4; return true; } if (!s.compare(p, 5, "false")) { p += 5; return true; } if (!s.compare(p, 4, "null")) { p += 4; return true; } return num(); }
    bool doc() { if (!val(0)) return false; ws(); return p == s.size(); } };
static bool same_kinds(const json& a, const json& b) { if (a.is_array()) { if (!b.is_array() || a.size() != b.size()) return false; for (size_t i = 0; i < a.size(); ++i) if (!same_kinds(a[i], b[i])) return false; return true; }
    if (a.is_object()) { if (!b.is_object() || a.size() != b.size()) return false; for (auto& m : a.object_range()) if (!b.contains(m.key()) || !same_kinds(m.value(), b[m.key()])) return false; return true; }
    if (a.is_number()) return b.is_number() && a.is_double() == b.is_double() && a.is_uint64() == b.is_uint64() && a.is_int64() == b.is_int64(); return true; }
int main(int argc, char** argv)
{
    if (argc < 3) return 2;
    std::vector<json> docs;
    const char* texts[] = {"[]", "{}", "[[]]", "[{}]", "{\"a\":[]}", "{\"a\":{}}", "[1,2,3]", "[[1,2],[3,[4,[5]]],[]]", "[{\"a\":1},{\"b\":[1,{\"c\":null}]}]", "{\"a\":[1,2,{\"b\":[true,false,null]}],\"z\":{\"y\":{\"x\":[[]]}}}",
        "[\"\",\"q\\\"b\\\\s\\/\",\"\\u0000\\u001f\\u007f\",\"\\u00e9\\u20ac\\ud83d\\ude00\\uffff\",\"tab\\there\\nline\"]", "[0,-0,1,-1,9223372036854775807,-9223372036854775808,18446744073709551615,0.1,-0.0,1e300,5e-324,1.7976931348623157e308,123456789012345678901234567890]",
        "{\"\":0,\"k\\\"ey\":1,\"\\u00fc\":2,\"long key long key long key long key long key long key long key\":[\"long value long value long value long value long value\",1,2,3,4,5,6,7,8,9,10,11,12,13,14,15,16,17,18,19,20]}", "7", "\"s\"", "null"};
    for (auto t : texts) docs.push_back(json::parse(t));
    const line_split_kind ls[] = {line_split_kind::same_line, line_split_kind::new_line, line_split_kind::multi_line};
    const spaces_option sp[] = {spaces_option::no_spaces, spaces_option::space_after, spaces_option::space_before, spaces_option::space_before_and_after};
    int bad = 0; long total = 0; std::string first; unsigned seed = 12345; auto rnd = [&](unsigned n) { seed = seed * 1103515245u + 12345u; return (seed >> 16) % n; };
    for (int iter = 0; iter < 1500; ++iter) {
        json_options o; o.indent_size((uint8_t)rnd(5)); if (rnd(3) == 0) o.indent_char('\t'); o.spaces_around_colon(sp[rnd(4)]); o.spaces_around_comma(sp[rnd(4)]); o.pad_inside_object_braces(rnd(2)); o.pad_inside_array_brackets(rnd(2));
        o.object_object_line_splits(ls[rnd(3)]); o.array_object_line_splits(ls[rnd(3)]); o.object_array_line_splits(ls[rnd(3)]); o.array_array_line_splits(ls[rnd(3)]); if (rnd(2)) o.root_line_splits(ls[rnd(3)]);
        const size_t lims[] = {0, 1, 10, 40, 120, 100000}; o.line_length_limit(lims[rnd(6)]); if (rnd(3) == 0) o.new_line_chars("\r\n"); o.escape_all_non_ascii(rnd(2)); o.escape_solidus(rnd(2)); o.lossless_bignum(true);
        for (const json& d : docs) { ++total; std::string t1, t2;
            try { d.dump_pretty(t1, o); if (!chk(t1).doc()) { if (!bad) first = "not RFC 8259 text: " + t1.substr(0, 200); ++bad; continue; }
                  json back = json::parse(t1, o); if (back != d || !same_kinds(d, back)) { if (!bad) first = "value changed: " + d.to_string().substr(0, 120) + " printed as " + t1.substr(0, 200); ++bad; continue; }
                  back.dump_pretty(t2, o); if (t1 != t2) { if (!bad) first = "not canonical: second print differs for " + d.to_string().substr(0, 120); ++bad; } }
            catch (const std::exception& e) { if (!bad) first = std::string(e.what()) + " for " + d.to_string().substr(0, 120); ++bad; } }
    }
    if (bad) VX_REPRO(bad << " of " << total << " pretty-printed documents do not round-trip, first: " << first);
    VX_NOREPRO("all " << total << " pretty-printed documents are RFC 8259 text, parse back to the same value and print identically again");
}
