# U-GRISU-BOUNDS (DESIGN 6, U-GRISU-SAFE): the rounding-interval boundaries that Grisu3 searches for the shortest digits
from core import FuncSpec, CopySpec, EnumSpec, Harness, INF

G = 'include/jsoncons/detail/grisu3.hpp'
CONSTS = CopySpec('dp_consts', G, r'constexpr int dp_significand_size = 52;', r'constexpr uint64_t dp_hidden_bit = 0x0010000000000000;', include_end=True,
                  rules=[(r'constexpr (int|uint64_t) (\w+) = ([^;]+);', r'#define \2 ((\1)(\3))', 6)])
F = 'spec_dbl_f(vx_bits)'
E = 'spec_dbl_e(vx_bits)'
SH = '((%s - 1) - out_m_plus->e)' % E      # the normalising shift applied to m+
BOUNDS = [
    ('requires', 'vx_d_is_bits && (vx_bits >> 63) == 0 && ((vx_bits >> 52) & 0x7ff) != 0x7ff && vx_bits != 0'),
    ('requires', '__CPROVER_w_ok(out_m_minus, sizeof(*out_m_minus)) && __CPROVER_w_ok(out_m_plus, sizeof(*out_m_plus))'),
    ('assigns', '*out_m_minus, *out_m_plus'),
    ('ensures', '[C04][C01] both boundaries are returned with the same exponent and m+ is normalised (top bit set)',
     'out_m_minus->e == out_m_plus->e && (out_m_plus->f >> 63) == 1'),
    ('ensures', '[C04][C01] upper boundary m+ = (2f+1) * 2^(e-1), the midpoint to the next double',
     '%s >= 0 && %s <= 62 && out_m_plus->f == ((2 * %s + 1) << %s)' % (SH, SH, F, SH)),
    ('ensures', '[C04][C01] lower boundary m- = (2f-1) * 2^(e-1), or (4f-1) * 2^(e-2) directly above a power of two (where the lower gap is half): the decimal interval searched for the shortest digits never reaches below the midpoint to the previous double',
     'spec_dbl_lower_gap_is_half(vx_bits) ? (out_m_minus->f == ((4 * %s - 1) << (%s - 1))) : (spec_dbl_is_min_normal(vx_bits) ? (out_m_minus->f == ((2 * %s - 1) << %s) || out_m_minus->f == ((4 * %s - 1) << (%s - 1))) : (out_m_minus->f == ((2 * %s - 1) << %s)))'
     % (F, SH, F, SH, F, SH, F, SH)),
]
SPECS = [
    CONSTS,
    FuncSpec('double_to_uint64', G, r'uint64_t double_to_uint64\(double d\)', count=1, csig='static uint64_t double_to_uint64(double d)'),
    FuncSpec('double2diy_fp', G, r'diy_fp_t double2diy_fp\(double d\)', count=1, csig='static diy_fp_t double2diy_fp(double d)'),
    FuncSpec('normalize_boundary', G, r'diy_fp_t normalize_boundary\(diy_fp_t in\)', count=1, csig='static diy_fp_t normalize_boundary(diy_fp_t in)'),
    FuncSpec('normalized_boundaries', G, r'void normalized_boundaries\(double d, diy_fp_t \*out_m_minus, diy_fp_t \*out_m_plus\)', count=1,
             csig='void normalized_boundaries(double d, diy_fp_t *out_m_minus, diy_fp_t *out_m_plus)', contract=BOUNDS),
]
HARNESSES = [
    Harness('normalized_boundaries', 'h_bounds', enforce='normalized_boundaries', method='WU(56)', unwind=56, split=True, props=['C04', 'C01'], timeout=900,
            note='every positive finite double (all 2^63 - 2^52 - 1 bit patterns); the loop of normalize_boundary is bounded by the significand width'),
]
