# U-CSV-PARSE-Q (C18, decode side): field-level states of the csv parser
from core import FuncSpec, CopySpec, EnumSpec, Harness
P = 'include/jsoncons_ext/csv/csv_parser.hpp'
AL = {'ec': '(*ec_p)', 'state_': '(self->state_)', 'more_': '(self->more_)', 'trim_leading_': '(self->trim_leading_)', 'trim_trailing_': '(self->trim_trailing_)', 'ignore_empty_values_': '(self->ignore_empty_values_)',
      'quote_char_': '(self->quote_char_)', 'quote_escape_char_': '(self->quote_escape_char_)', 'field_delimiter_': '(self->field_delimiter_)', 'subfield_delimiter_': '(self->subfield_delimiter_)',
      'input_ptr_': '(self->input_ptr_)', 'column_': '(self->column_)'}
N = 40
RULES = [
    (r'csv_errc::(\w+)', r'csv_errc_\1', 0, N), (r'csv_parse_state::(\w+)', r'csv_parse_state_\1', 4, N),
    (r'buffer_\.push_back\(static_cast<CharT>\(curr_char\)\);', 'vx_buf_push(curr_char);', 1, 4), (r'buffer_\.clear\(\);', 'vx_buf_clear();', 0, 2), (r'buffer_\.empty\(\)', '(vx_buflen == 0)', 0, 6),
    (r'before_value\(local_visitor, ec\);', 'vx_before_value(ec_p);', 2, 8), (r'before_value\(local_visitor, ec, true\);', 'vx_before_value(ec_p); vx_opens_subfields++;', 0, 2), (r'stack_\.back\(\) == csv_mode::subfields', 'vx_mode_subfields', 0, 2), (r'trim_string_buffer\(trim_leading_,\s*trim_trailing_\);', 'vx_trim();', 2, 8), (r'char_type\(\)', "'\\\\0'", 1, 4),
]
S0 = '__CPROVER_old(self->state_)'
C = 'vx_in[vx_off]'
PO = '(size_t)(self->input_ptr_ - vx_in)'
Q, E, D = 'self->quote_char_', 'self->quote_escape_char_', 'self->field_delimiter_'
PRE = [('requires', 'self->input_ptr_ == vx_in + vx_off && vx_off < vx_n && vx_n <= 100000000 && self->more_ && *ec_p == 0 && self->column_ <= SIZE_MAX / 2 && vx_buflen <= SIZE_MAX / 2 && vx_pushes == 0 && vx_clears == 0 && vx_before_values == 0 && vx_trims == 0 && vx_opens_subfields == 0'),
       ('assigns', '*ec_p, self->state_, self->more_, self->input_ptr_, self->column_, vx_buflen, vx_pushes, vx_clears, vx_before_values, vx_trims, vx_pushed, vx_spec_r, vx_opens_subfields')]
QUOTED = PRE + [
    ('requires', 'self->state_ == csv_parse_state_quoted_string || self->state_ == csv_parse_state_escaped_value || self->state_ == csv_parse_state_between_values'),
    ('ensures', '[C18] inside a quoted field the parser is the S-CSV decoder: an ordinary character is appended; the escape character waits for the next one; an unescaped quote closes the field',
     '%s == csv_parse_state_quoted_string ==> ((%s == %s) ? (vx_pushes == 0 && self->state_ == csv_parse_state_escaped_value) : (%s == %s) ? (vx_pushes == 0 && self->state_ == csv_parse_state_between_values) '
     ': (vx_pushes == 1 && vx_pushed == %s && self->state_ == csv_parse_state_quoted_string)) && %s == vx_off + 1 && vx_clears == 0 && *ec_p == 0' % (S0, C, E, C, Q, C, PO)),
    ('ensures', '[C18] after the escape character: an escaped quote or an escaped escape character stands for itself; when the escape character is the quote character anything else means the field was closed by that quote (the character is looked at again); otherwise nothing is appended (the parser reports invalid_escaped_char)',
     '%s == csv_parse_state_escaped_value ==> (vx_clears == 0 && ((%s == %s || (%s != %s && %s == %s)) ? (vx_pushes == 1 && vx_pushed == %s && self->state_ == csv_parse_state_quoted_string && %s == vx_off + 1 && *ec_p == 0) '
     ': (%s == %s) ? (vx_pushes == 0 && self->state_ == csv_parse_state_between_values && %s == vx_off && *ec_p == 0) : (vx_pushes == 0)))' % (S0, C, Q, E, Q, C, E, C, PO, E, Q, PO)),
    ('ensures', '[C18] the quoted-field states agree with the S-CSV decoder step (same function the encoder is proved against)',
     '(%s == csv_parse_state_quoted_string || %s == csv_parse_state_escaped_value) ==> (vx_spec_r >= 0 ? (vx_pushes == 1 && (unsigned char)vx_pushed == vx_spec_r) : vx_pushes == 0)' % (S0, S0)),
    ('ensures', '[C18] after the closing quote: the delimiter or a line break ends the field (value event, the character is left for the record level); the content is not touched unless a trim option is on (what happens on other characters, which encoder output never has there, is not constrained)',
     '%s == csv_parse_state_between_values ==> (vx_pushes == 0 && vx_clears == 0 && ((self->trim_leading_ || self->trim_trailing_) || vx_trims == 0) '
     '&& ((%s == \'\\r\' || %s == \'\\n\') ? (%s == vx_off && ((self->ignore_empty_values_ && vx_buflen == 0) ? (self->state_ == (vx_mode_subfields ? csv_parse_state_before_last_unquoted_field_tail : csv_parse_state_end_record) && vx_before_values == 0) : (vx_before_values == 1 && (*ec_p == 0 ==> self->state_ == csv_parse_state_before_last_quoted_field)))) '
     ': (%s == %s) ? (%s == vx_off && vx_before_values == 1 && self->state_ == csv_parse_state_before_quoted_field) '
     ': (self->subfield_delimiter_ != 0 && %s == self->subfield_delimiter_) ? (%s == vx_off && vx_before_values == 1 && vx_opens_subfields == 1 && self->state_ == csv_parse_state_before_quoted_subfield) '
     ': 1))' % (S0, C, C, PO, C, D, PO, C, PO)),
]
UNQUOTED = PRE + [
    ('requires', 'self->state_ == csv_parse_state_unquoted_string'),
    ('ensures', '[C18] inside an unquoted field every character other than the delimiter, the sub-field delimiter, the quote character, CR and LF is appended as it is (these are exactly the characters that make the encoder quote a field)',
     '(%s != \'\\r\' && %s != \'\\n\' && %s != %s && !(self->subfield_delimiter_ != 0 && %s == self->subfield_delimiter_) && %s != %s) ==> (vx_pushes == 1 && vx_pushed == %s && vx_clears == 0 && vx_trims == 0 && vx_before_values == 0 && self->state_ == csv_parse_state_unquoted_string && %s == vx_off + 1 && *ec_p == 0)' % (C, C, C, D, C, C, Q, C, PO)),
    ('ensures', '[C18] the delimiter or a line break ends the field: value event, the character is left for the record level, nothing is appended or cleared',
     '((%s == \'\\r\' || %s == \'\\n\') ==> (vx_pushes == 0 && vx_clears == 0 && %s == vx_off && ((self->ignore_empty_values_ && vx_buflen == 0) ? (self->state_ == (vx_mode_subfields ? csv_parse_state_before_last_unquoted_field_tail : csv_parse_state_end_record) && vx_before_values == 0) : (vx_before_values == 1 && (*ec_p == 0 ==> self->state_ == csv_parse_state_before_last_unquoted_field))))) '
     '&& ((%s != \'\\r\' && %s != \'\\n\' && %s == %s) ==> (vx_pushes == 0 && vx_clears == 0 && %s == vx_off && vx_before_values == 1 && self->state_ == csv_parse_state_before_unquoted_field))' % (C, C, PO, C, C, C, D, PO)),
    ('ensures', '[C05][C18] the sub-field delimiter ends a sub-field: value event announced as one that opens or continues a list of sub-fields (F51: with ignore_empty_values an empty first sub-field lost the member name of the list), the character is left for the sub-field level',
     '(%s != \'\\r\' && %s != \'\\n\' && %s != %s && self->subfield_delimiter_ != 0 && %s == self->subfield_delimiter_) ==> (vx_pushes == 0 && vx_clears == 0 && %s == vx_off && vx_before_values == 1 && vx_opens_subfields == 1 && self->state_ == csv_parse_state_before_unquoted_subfield)' % (C, C, C, D, C, PO)),
    ('ensures', '[C05][C18] F51: inside a list of sub-fields a record never ends without the state that closes the list - an ignored empty last sub-field goes to before_last_unquoted_field_tail, not straight to end_record',
     '(vx_mode_subfields && (%s == \'\\r\' || %s == \'\\n\')) ==> self->state_ != csv_parse_state_end_record' % (C, C)),
    ('ensures', '[C18] a quote character at the start of a field opens a quoted field (a quote character later in an unquoted field never occurs in encoder output; what the parser does with it is not constrained)',
     '(__CPROVER_old(vx_buflen) == 0 && %s != \'\\r\' && %s != \'\\n\' && %s != %s && !(self->subfield_delimiter_ != 0 && %s == self->subfield_delimiter_) && %s == %s) ==> (vx_pushes == 0 && vx_buflen == 0 && self->state_ == csv_parse_state_quoted_string && %s == vx_off + 1 && *ec_p == 0)' % (C, C, C, D, C, C, Q, PO)),
    ('ensures', '[C18] the content is not trimmed unless a trim option is on', '(self->trim_leading_ || self->trim_trailing_) || vx_trims == 0'),
]
# ---- start of a record (state expect_record): which character begins a record, and that the field delimiter - whatever character it is (other than the quote character) - is left for the field level
RPRE = [('requires', 'self->input_ptr_ == vx_in + vx_off && vx_off < vx_n && vx_n <= 100000000 && self->more_ && *ec_p == 0 && self->column_ <= SIZE_MAX / 2 && self->line_ <= SIZE_MAX / 2 && vx_buflen == 0 && vx_pushes == 0 && vx_clears == 0 && vx_begin_records == 0 && vx_state_pushes == 0 && self->state_ == csv_parse_state_expect_record && vx_header_line_offset <= SIZE_MAX / 2'),
        ('assigns', '*ec_p, self->state_, self->more_, self->input_ptr_, self->column_, self->line_, vx_buflen, vx_pushes, vx_clears, vx_pushed, vx_begin_records, vx_state_pushes, vx_header_line_offset')]
EXPECT_RECORD = RPRE + [
    ('ensures', '[C18] the field delimiter at the start of a record - a comma, a semicolon, and equally a tab or a space when that is the delimiter in force - begins the record and is left for the field level, which makes the first field empty (F36: tab separated values)',
     '(%s == %s && %s != \'\\n\' && %s != \'\\r\' && %s != %s) ==> (vx_begin_records == 1 && self->state_ == csv_parse_state_unquoted_string && %s == vx_off && vx_pushes == 0 && vx_buflen == 0 && *ec_p == 0)' % (C, D, C, C, D, Q, PO)),
    ('ensures', '[C18] a space or a tab that is not the delimiter is content of the first field (kept, and the record begins) unless leading white space is trimmed (skipped)',
     '((%s == \' \' || %s == \'\\t\') && %s != %s) ==> (%s == vx_off + 1 && (self->trim_leading_ ? (vx_begin_records == 0 && vx_pushes == 0 && self->state_ == csv_parse_state_expect_record) : (vx_begin_records == 1 && vx_pushes == 1 && vx_pushed == %s && self->state_ == csv_parse_state_unquoted_string)))' % (C, C, C, D, PO, C)),
    ('ensures', '[C18] the quote character opens a quoted first field; any other character begins an unquoted first field and is left for the field level',
     '(%s != \'\\n\' && %s != \'\\r\' && %s != \' \' && %s != \'\\t\') ==> (vx_begin_records == 1 && vx_pushes == 0 && (%s == %s ? (self->state_ == csv_parse_state_quoted_string && %s == vx_off + 1) : (self->state_ == csv_parse_state_unquoted_string && %s == vx_off)))' % (C, C, C, C, C, Q, PO, PO)),
    ('ensures', '[C18] an empty line is skipped, or - when empty lines are not ignored - is a record without fields', '(%s == \'\\n\' || %s == \'\\r\') ==> (vx_pushes == 0 && (self->ignore_empty_lines_ ? vx_begin_records == 0 : (vx_begin_records == 1 && self->state_ == csv_parse_state_end_record && %s == vx_off)))' % (C, C, PO)),
]
R_RULES = RULES[:2] + [(r'stack_\.back\(\) == csv_mode::header', 'vx_mode_header', 0, 2), (r'buffer_\.push_back\(static_cast<CharT>\(curr_char\)\);', 'vx_buf_push(curr_char);', 1, 2), (r'buffer_\.clear\(\);', 'vx_buf_clear();', 0, 2), (r'begin_record\(local_visitor, ec\);', 'vx_begin_record(ec_p);', 3, 8), (r'push_state\(state_\);', 'vx_state_pushes++;', 0, 3)]
SIG = r'void parse_some\(basic_json_visitor<CharT>& visitor, std::error_code& ec\)'
SPECS = [
    EnumSpec('csv_parse_state', P), EnumSpec('csv_errc', 'include/jsoncons_ext/csv/csv_error.hpp'),
    FuncSpec('quoted_states', P, SIG, count=1, csig='void quoted_states(struct csv_parser* self, int* ec_p)', contract=QUOTED, rules=RULES, aliases=AL,
             slice_from=r'case csv_parse_state::quoted_string:(?=\s*\{\s*if \(curr_char == quote_escape_char_\))', slice_to=r'case csv_parse_state::before_unquoted_string:\s*\{',
             prologue='char curr_char = *input_ptr_; int vx_st = (state_ == csv_parse_state_escaped_value); vx_spec_r = spec_csv_quoted_step(&vx_st, curr_char, quote_char_, quote_escape_char_); switch (state_) {', epilogue='default: break; }'),
    FuncSpec('unquoted_string', P, SIG, count=1, csig='void unquoted_string(struct csv_parser* self, int* ec_p)', contract=UNQUOTED, rules=RULES, aliases=AL,
             slice_from=r'case csv_parse_state::unquoted_string:\s*\{\s*switch \(curr_char\)', slice_to=r'case csv_parse_state::expect_record:',
             prologue='char curr_char = *input_ptr_; switch (state_) {', epilogue='default: break; }'),
]
SPECS.append(FuncSpec('expect_record', P, SIG, count=1, csig='void expect_record(struct csv_parser* self, int* ec_p)', contract=EXPECT_RECORD, rules=R_RULES, aliases=dict(AL, line_='(self->line_)', ignore_empty_lines_='(self->ignore_empty_lines_)', header_line_offset_='vx_header_line_offset'),
             slice_from=r'case csv_parse_state::expect_record:\s*\{\s*switch \(curr_char\)', slice_to=r'case csv_parse_state::end_record:',
             prologue='char curr_char = *input_ptr_; switch (state_) {', epilogue='default: break; }'))
# ---- end of input (the switch that runs when the input is exhausted): inside a quoted field the closing quote is missing -> unexpected_eof (F41: the state fell into the
# default arm, the record that had been begun was never ended and json_decoder's internal assertion failed)
EOF_C = [
    ('requires', '*ec_p == 0 && self->more_ && vx_before_values == 0 && vx_end_quoted == 0 && !vx_default_arm && self->column_ <= SIZE_MAX / 2 && vx_column_index <= SIZE_MAX / 2 && (self->state_ == csv_parse_state_quoted_string || self->state_ == csv_parse_state_escaped_value || self->state_ == csv_parse_state_before_last_quoted_field || self->state_ == csv_parse_state_between_values)'),
    ('assigns', '*ec_p, self->state_, self->more_, self->column_, vx_before_values, vx_end_quoted, vx_default_arm, vx_column_index, vx_err_handler_calls, vx_buflen'),
    ('ensures', '[C05][C18] the input ends inside a quoted field (no closing quote): unexpected_eof, the parser stops; it is never treated as the end of a record',
     '__CPROVER_old(self->state_) == csv_parse_state_quoted_string ==> (*ec_p == csv_errc_unexpected_eof && !self->more_ && !vx_default_arm && vx_before_values == 0)'),
    ('ensures', '[C05][C18] the input ends after the closing quote of the last field and some blanks (F50): the field is complete - it is delivered like a field that is followed by a line break; never the default arm',
     '__CPROVER_old(self->state_) == csv_parse_state_between_values ==> (!vx_default_arm && ((self->ignore_empty_values_ && __CPROVER_old(vx_buflen) == 0) ? (vx_before_values == 0 && self->state_ == csv_parse_state_before_last_unquoted_field_tail) : (vx_before_values == 1 && (*ec_p == 0 ==> self->state_ == csv_parse_state_before_last_quoted_field))))'),
    ('ensures', '[C05] at the end of the input the record that has been begun is always ended: no state goes straight to end_record without the field having been counted (F53: a record whose only value was an ignored empty quoted field was never ended, json_decoder failed an internal assertion)',
     '(__CPROVER_old(self->state_) == csv_parse_state_between_values || __CPROVER_old(self->state_) == csv_parse_state_escaped_value) ==> (self->state_ == csv_parse_state_end_record ==> vx_column_index > __CPROVER_old(vx_column_index))'),
    ('ensures', '[C05][C18] the input ends right after the closing quote of the last field: the field is delivered and goes on to the tail state, which closes a list of sub-fields, counts the field and ends the record (F58: the record was ended at once, a list of sub-fields stayed open - "1;\\"x\\"" at the end of the input failed an internal assertion of json_decoder)', '__CPROVER_old(self->state_) == csv_parse_state_before_last_quoted_field ==> (vx_end_quoted == 1 && self->state_ == csv_parse_state_before_last_unquoted_field_tail && vx_column_index == __CPROVER_old(vx_column_index) && *ec_p == 0)'),
]
SPECS.append(FuncSpec('eof_quoted', P, SIG, count=1, csig='void eof_quoted(struct csv_parser* self, int* ec_p)', contract=EOF_C, aliases=dict(AL, column_index_='vx_column_index'),
             rules=RULES[:2] + [(r'end_quoted_string_value\(local_visitor, ec\);', 'vx_end_quoted++;', 1), (r'err_handler_\(csv_errc_unexpected_eof, \*this\);', 'vx_err_handler_calls++;', 0, 1), (r'buffer_\.empty\(\)', '(vx_buflen == 0)', 1, 3), (r'before_value\(local_visitor, ec\);', 'vx_before_value(ec_p);', 1, 2), (r'stack_\.back\(\) == csv_mode::subfields', 'vx_mode_subfields', 0, 3)],
             slice_from=r'case csv_parse_state::before_last_quoted_field:(?=\s*end_quoted_string_value\(local_visitor, ec\);\s*(?:\+\+column_index_;\s*)?state_ = csv_parse_state::(?:end_record|before_last_unquoted_field_tail);)', slice_to=r'case csv_parse_state::end_record:\s*if \(column_index_ > 0\)',
             prologue='switch (state_) {', epilogue='default: vx_default_arm = true; state_ = csv_parse_state_end_record; break; }'))

# ---- F51: the member name of a value (before_value, data rows) and the column bookkeeping of m_columns for an ignored empty value (end_unquoted_string_value / end_quoted_string_value)
BV_C = [
    ('requires', '*ec_p == 0 && vx_keys == 0 && vx_column_index >= vx_offset && vx_column_index <= SIZE_MAX / 4 && vx_ncols <= SIZE_MAX / 4 && vx_offset <= SIZE_MAX / 4'),
    ('assigns', '*ec_p, self->more_, vx_keys, vx_key_index'),
    ('ensures', '[C05][C18] in n_objects mode a value of a column that has a name is announced by that name, unless it is an ignored empty value - and also then when it opens a list of sub-fields, whose array follows (F51: the array was delivered without a name)',
     '(vx_mapping_kind == csv_mapping_kind_n_objects && vx_column_index < vx_ncols + vx_offset && (opens_subfields || !(self->ignore_empty_values_ && vx_buflen == 0))) ? (vx_keys == 1 && vx_key_index == vx_column_index - vx_offset) : vx_keys == 0'),
]
BV_AL = dict(AL, mapping_kind_='vx_mapping_kind', column_index_='vx_column_index', offset_='vx_offset', cursor_mode_='vx_cursor_mode')
SPECS.append(EnumSpec('csv_mapping_kind', 'include/jsoncons_ext/csv/csv_options.hpp'))
SPECS.append(FuncSpec('before_value_data', P, r'void before_value\(basic_json_visitor<CharT>& visitor,\s*std::error_code& ec(?:, bool opens_subfields = false)?\)', count=1, csig='void before_value_data(struct csv_parser* self, int* ec_p, bool opens_subfields)', contract=BV_C, aliases=BV_AL,
             rules=[(r'case csv_mode::data:', 'case 0:', 1, 1), (r'csv_mapping_kind::(\w+)', r'csv_mapping_kind_\1', 1, 2), (r'buffer_\.empty\(\)', '(vx_buflen == 0)', 1, 2), (r'column_names_\.size\(\)', 'vx_ncols', 1, 2),
                    (r'visitor\.key\(column_names_\[column_index_ - offset_\], \*this, ec\);', 'vx_keys++; vx_key_index = column_index_ - offset_;', 1, 1)],
             slice_from=r'case csv_mode::data:\s*if \(mapping_kind_ == csv_mapping_kind::n_objects\)', slice_to=r'default:\s*break;\s*\}\s*$',
             prologue='switch (0) {', epilogue='}'))
MC_C = [
    ('requires', 'vx_end_values == 0 && vx_skips == 0'),
    ('assigns', 'vx_end_values, vx_skips'),
    ('ensures', '[C05][C18] m_columns: a value is delivered to the column filter; an ignored empty value moves the filter to the next column only when it is a field of the row - inside a list of sub-fields the column stays (F51: the column index ran past the last column, heap-buffer-overflow in m_columns_filter::visit_end_array)',
     '(self->ignore_empty_values_ && vx_buflen == 0) ? (vx_end_values == 0 && vx_skips == (vx_mode_subfields ? 0 : 1)) : (vx_end_values == 1 && vx_skips == 0)'),
]
for nm, fn in (('m_columns_unquoted', 'end_unquoted_string_value'), ('m_columns_quoted', 'end_quoted_string_value')):
    SPECS.append(FuncSpec(nm, P, r'void %s\(basic_json_visitor<CharT>& visitor,\s*std::error_code& ec\)' % fn, count=1, csig='void %s(struct csv_parser* self)' % nm, contract=MC_C, aliases=AL,
             rules=[(r'case csv_mapping_kind::m_columns:', 'case 0:', 1, 1), (r'buffer_\.empty\(\)', '(vx_buflen == 0)', 1, 1), (r'end_value\(visitor, (?:infer_types_|false), ec\);', 'vx_end_values++;', 1, 1), (r'm_columns_filter_\.skip_column\(\);', 'vx_skips++;', 1, 1),
                    (r'stack_\.back\(\) == csv_mode::data', '!vx_mode_subfields', 0, 1)],
             slice_from=r'case csv_mapping_kind::m_columns:', slice_to=r'\}\s*break;\s*default:\s*break;\s*\}\s*$',
             prologue='switch (0) {', epilogue='}'))

# ---- the states between two fields (before_unquoted_string ... before_last_quoted_field_tail): a list of sub-fields is open exactly while the mode on top of the stack is `subfields`,
# every field-ending state closes it, and each state delivers at most one event (the cursor keeps one)
FS_IN = ['before_unquoted_string', 'before_unquoted_field', 'before_unquoted_field_tail', 'before_unquoted_field_tail1', 'before_last_unquoted_field', 'before_last_unquoted_field_tail', 'before_unquoted_subfield',
         'before_unquoted_subfield_tail', 'before_quoted_field', 'before_quoted_subfield', 'before_quoted_subfield_tail', 'before_last_quoted_field', 'before_last_quoted_field_tail']
FS_ST = ' || '.join('self->state_ == csv_parse_state_%s' % x for x in FS_IN)
EV = '(vx_begin_arrays + vx_end_arrays + vx_end_unquoted + vx_end_quoted2)'
FS_C = [
    ('requires', '(%s) && *ec_p == 0 && self->more_ && self->column_ <= SIZE_MAX / 2 && vx_column_index <= SIZE_MAX / 2 && vx_level >= 0 && vx_level <= 1000000 && vx_lists_open <= 1 && (vx_mode == csv_mode_header || vx_mode == csv_mode_data || vx_mode == csv_mode_subfields) '
                 '&& ((vx_mode == csv_mode_subfields) == (vx_lists_open == 1)) && vx_begin_arrays == 0 && vx_end_arrays == 0 && vx_end_unquoted == 0 && vx_end_quoted2 == 0 && vx_clears == 0' % FS_ST),
    ('assigns', '*ec_p, self->state_, self->more_, self->input_ptr_, self->column_, vx_buflen, vx_clears, vx_column_index, vx_level, vx_lists_open, vx_mode, vx_begin_arrays, vx_end_arrays, vx_end_unquoted, vx_end_quoted2'),
    ('ensures', '[C05][C18] a list of sub-fields is open exactly while the mode is `subfields` (begin_array and end_array stay balanced over any sequence of steps), and the nesting level follows the events',
     '((vx_mode == csv_mode_subfields) == (vx_lists_open == 1)) && vx_lists_open <= 1 && vx_level == __CPROVER_old(vx_level) + (int)vx_begin_arrays - (int)vx_end_arrays'),
    ('ensures', '[C05] each state delivers at most one event (in cursor mode the visitor keeps exactly one)', '%s <= 1' % EV),
    ('ensures', '[C05][C18] the states that end a field close the list: after them no list is open, and a record is never ended with one open',
     '((%s) ==> (vx_lists_open == 0 && vx_mode != csv_mode_subfields)) && (self->state_ == csv_parse_state_end_record ==> vx_lists_open == 0)'
     % ' || '.join('__CPROVER_old(self->state_) == csv_parse_state_%s' % x for x in ['before_unquoted_field_tail', 'before_unquoted_field_tail1', 'before_last_unquoted_field_tail', 'before_last_quoted_field_tail'])),
    ('ensures', '[C18] the sub-field states open the list when a data field turns out to have sub-fields (once), never in the header',
     '((__CPROVER_old(self->state_) == csv_parse_state_before_unquoted_subfield || __CPROVER_old(self->state_) == csv_parse_state_before_quoted_subfield) ==> (vx_begin_arrays == (__CPROVER_old(vx_mode) == csv_mode_data ? 1 : 0) && vx_end_arrays == 0 && (__CPROVER_old(vx_mode) != csv_mode_header ==> vx_mode == csv_mode_subfields)))'),
    ('ensures', '[C18] the column index advances once per field (in the tail state of a field), not per sub-field',
     'vx_column_index == __CPROVER_old(vx_column_index) + ((%s) ? 1 : 0)' % ' || '.join('__CPROVER_old(self->state_) == csv_parse_state_%s' % x for x in ['before_unquoted_field_tail', 'before_last_unquoted_field_tail', 'before_last_quoted_field_tail'])),
]
FS_AL = dict(AL, column_index_='vx_column_index', cursor_mode_='vx_cursor_mode', mapping_kind_='vx_mapping_kind', mark_level_='vx_mark_level', level_='vx_level')
SPECS.append(EnumSpec('csv_mode', P))
SPECS.append(FuncSpec('field_states', P, SIG, count=1, csig='void field_states(struct csv_parser* self, int* ec_p)', contract=FS_C, aliases=FS_AL,
             rules=RULES[:2] + [(r'csv_mapping_kind::(\w+)', r'csv_mapping_kind_\1', 0, 8), (r'stack_\.back\(\)', 'vx_mode', 1, 12), (r'csv_mode::(\w+)', r'csv_mode_\1', 1, 16), (r'stack_\.pop_back\(\);', 'vx_mode = csv_mode_data;', 0, 6),
                    (r'stack_\.push_back\(csv_mode_subfields\);', 'vx_mode = csv_mode_subfields;', 0, 2), (r'local_visitor\.begin_array\(semantic_tag::none, \*this, ec\);', 'vx_begin_arrays++; vx_lists_open++;', 0, 2),
                    (r'local_visitor\.end_array\(\*this, ec\);', 'vx_end_arrays++; vx_lists_open--;', 0, 6), (r'end_unquoted_string_value\(local_visitor, ec\);', 'vx_end_unquoted++;', 0, 4), (r'end_quoted_string_value\(local_visitor, ec\);', 'vx_end_quoted2++;', 0, 4),
                    (r'\blevel\(\)', 'vx_level', 0, 6), (r'buffer_\.clear\(\);', 'vx_buf_clear();', 1, 1)],
             slice_from=r'case csv_parse_state::before_unquoted_string:\s*\{\s*buffer_\.clear\(\);', slice_to=r'case csv_parse_state::unquoted_string:\s*\{\s*switch \(curr_char\)',
             prologue='switch (state_) {', epilogue='default: break; }'))

# ---- F56: the repeat entry of column_types ("float*") in end_value: an array is closed only when one is open
RP_C = [
    ('requires', 'vx_end_arrays == 0 && vx_level >= 0 && vx_level <= 1000000 && vx_ntypes >= 1 && vx_ntypes <= 8 && vx_offset <= SIZE_MAX / 4 && vx_column_index >= vx_offset && vx_column_index - vx_offset < vx_ntypes '
                 '&& (vx_types[vx_column_index - vx_offset].col_type == csv_column_type_repeat_t ==> (vx_types[vx_column_index - vx_offset].rep_count >= 1 && vx_types[vx_column_index - vx_offset].rep_count <= vx_column_index - vx_offset))'),
    ('assigns', 'self->more_, vx_offset, vx_depth, vx_level, vx_end_arrays, vx_lists_open'),
    ('ensures', '[C05] a repeat entry closes an array only when a typed array is open (F56: column_types("float*") with two or more columns delivered an end_array for an array that had never been begun, json_decoder failed an internal assertion)',
     '(vx_end_arrays <= 1) && (__CPROVER_old(vx_depth) == 0 ==> vx_end_arrays == 0) && vx_level == __CPROVER_old(vx_level) - (int)vx_end_arrays'),
    ('ensures', '[C05] the repeat entry moves the type index back by its count, which stays inside column_types', 'vx_column_index >= vx_offset && vx_column_index - vx_offset < vx_ntypes'),
]
SPECS.append(EnumSpec('csv_column_type', 'include/jsoncons_ext/csv/csv_options.hpp'))
SPECS.append(FuncSpec('end_value_repeat', P, r'void end_value\(basic_json_visitor<CharT>& visitor,\s*bool infer_types, std::error_code&\s+ec\)', count=1, csig='void end_value_repeat(struct csv_parser* self)', contract=RP_C,
             aliases=dict(AL, column_index_='vx_column_index', offset_='vx_offset', depth_='vx_depth', cursor_mode_='vx_cursor_mode', mapping_kind_='vx_mapping_kind', mark_level_='vx_mark_level', level_='vx_level'),
             rules=[(r'csv_column_type::(\w+)', r'csv_column_type_\1', 1, 1), (r'csv_mapping_kind::(\w+)', r'csv_mapping_kind_\1', 0, 2), (r'column_types_\.size\(\)', 'vx_ntypes', 1, 2), (r'column_types_\[', 'vx_types[', 3, 6),
                    (r'visitor\.end_array\(\*this, ec\);', 'vx_end_arrays++; vx_lists_open--;', 0, 1), (r'\blevel\(\)', 'vx_level', 0, 1)],
             slice_from=r'if \(column_types_\[column_index_ - offset_\]\.col_type == csv_column_type::repeat_t\)', slice_to=r'if \(depth_ < column_types_\[column_index_ - offset_\]\.level\)'))
HARNESSES = [
    Harness('field_states', 'h_field_states', enforce='field_states', method='LF', props=['C05', 'C18'], note='program slice of the state switch of parse_some: the thirteen states between two fields; the stack of modes is modelled by its top (a list of sub-fields is only ever pushed on `data`); the state before_unquoted_field_tail1 is in the slice but no state leads to it'),
    Harness('end_value_repeat', 'h_end_value_repeat', enforce='end_value_repeat', method='LF', props=['C05'], note='program slice of end_value: the block for a repeat entry of column_types; at most 8 type entries'),
    Harness('before_value_data', 'h_before_value_data', enforce='before_value_data', method='LF', props=['C05', 'C18']),
    Harness('m_columns_unquoted', 'h_m_columns_unquoted', enforce='m_columns_unquoted', method='LF', props=['C05', 'C18']),
    Harness('m_columns_quoted', 'h_m_columns_quoted', enforce='m_columns_quoted', method='LF', props=['C05', 'C18']),
    Harness('eof_quoted', 'h_eof_quoted', enforce='eof_quoted', method='LF', props=['C05', 'C18', 'C03'], note='program slice of the end-of-input switch of parse_some: the three states that can hold when the input ends in or right after a quoted field; every other state takes the default arm, which the slice reproduces'),
    Harness('expect_record', 'h_expect_record', enforce='expect_record', method='LF', props=['C18', 'C03']),
    Harness('quoted_states', 'h_quoted_states', enforce='quoted_states', method='LF', props=['C18', 'C03']),
    Harness('unquoted_string', 'h_unquoted_string', enforce='unquoted_string', method='LF', props=['C18', 'C03']),
]
