// replay for unit float_width: doubles around every place where the width decision changes (exactly representable in binary32 or not, the largest and smallest
// binary32 values and their binary64 neighbours, subnormals, zeros of both signs, infinities, NaNs with payloads, and the counterexample's bit pattern) are
// pushed through the real CBOR, MessagePack and UBJSON encoders - with every epoch tag for CBOR - and the bytes are read by an independent reader of the three
// float item layouts; the value denoted must be the value pushed (for CBOR epoch_milli / epoch_nano: the value divided by 1000 / 1e9), bit for bit, NaN as NaN.
#include <jsoncons/json.hpp>
#include <jsoncons_ext/cbor/cbor.hpp>
#include <jsoncons_ext/msgpack/msgpack.hpp>
#include <jsoncons_ext/ubjson/ubjson.hpp>
#include "replay_util.hpp"
#include <cmath>
#include <cstring>
using namespace jsoncons;
static double from_bits(uint64_t u) { double d; std::memcpy(&d, &u, 8); return d; }
static uint64_t bits(double d) { uint64_t u; std::memcpy(&u, &d, 8); return u; }
static bool ref_item(const std::vector<uint8_t>& b, size_t at, uint8_t m32, uint8_t m64, double& out)
{
    if (at >= b.size()) return false;
    if (b[at] == m32 && b.size() == at + 5) { uint32_t u = 0; for (int i = 1; i <= 4; ++i) u = (u << 8) | b[at + i]; float f; std::memcpy(&f, &u, 4); out = (double)f; return true; }
    if (b[at] == m64 && b.size() == at + 9) { uint64_t u = 0; for (int i = 1; i <= 8; ++i) u = (u << 8) | b[at + i]; out = from_bits(u); return true; }
    return false;
}
static bool same(double a, double b) { return std::isnan(a) ? std::isnan(b) : bits(a) == bits(b); }
int main(int argc, char** argv)
{
    if (argc < 3) return 2;
    vx_replay_inputs in; if (!in.load(argv[2])) return 2;
    std::vector<uint64_t> seeds = {0, 0x8000000000000000ull, 1, 0x000fffffffffffffull, 0x0010000000000000ull, 0x7ff0000000000000ull, 0xfff0000000000000ull, 0x7ff8000000000000ull, 0x7ff0000000000001ull,
                                   0xfff8000000000123ull, 0x7fefffffffffffffull, bits(1.5), bits(0.1), bits(1e300), bits(-2.5e-300), bits(16777217.0), bits(1234567890123.0), bits(1e-45), bits(1700000000123.0), bits(1e18)};
    const float fs[] = {3.4028234663852886e38f, 1.17549435e-38f, 1.401298464324817e-45f, 1.0f, -0.0f, 0.333333343f, 65504.0f, 16777216.0f};
    for (float f : fs) { uint64_t u = bits((double)f); for (int d = -2; d <= 2; ++d) seeds.push_back(u + (uint64_t)(int64_t)d); seeds.push_back(u ^ 0x8000000000000000ull); }
    if (in.has("v#bits")) { uint64_t u = in.u64("v#bits"); for (int d = -1; d <= 1; ++d) seeds.push_back(u + (uint64_t)(int64_t)d); }
    const semantic_tag tags[] = {semantic_tag::none, semantic_tag::epoch_second, semantic_tag::epoch_milli, semantic_tag::epoch_nano, semantic_tag::bigdec, semantic_tag::datetime};
    int bad = 0, total = 0; std::string first;
    auto fail = [&](const std::string& what, uint64_t u) { if (!bad) { std::ostringstream os; os << what << " for double bits 0x" << std::hex << u; first = os.str(); } ++bad; };
    for (uint64_t u : seeds) {
        double v = from_bits(u), got;
        for (semantic_tag t : tags) {
            ++total;
            std::vector<uint8_t> b; cbor::cbor_bytes_encoder enc(b); enc.double_value(v, t); enc.flush();
            bool epoch = t == semantic_tag::epoch_second || t == semantic_tag::epoch_milli || t == semantic_tag::epoch_nano;
            size_t at = 0; if (epoch) { if (b.empty() || b[0] != 0xc1) { fail("CBOR: tag 1 missing", u); continue; } at = 1; } 
            double want = v; if (t == semantic_tag::epoch_milli && v != 0) want = v / 1000; if (t == semantic_tag::epoch_nano && v != 0) want = v / 1000000000;
            if (!ref_item(b, at, 0xfa, 0xfb, got)) fail("CBOR: not one float item", u); else if (!same(got, want)) fail("CBOR: the item denotes another value", u);
        }
        { ++total; std::vector<uint8_t> b; msgpack::msgpack_bytes_encoder enc(b); enc.double_value(v); enc.flush();
          if (!ref_item(b, 0, 0xca, 0xcb, got)) fail("MessagePack: not one float item", u); else if (!same(got, v)) fail("MessagePack: the item denotes another value", u); }
        { ++total; std::vector<uint8_t> b; ubjson::ubjson_bytes_encoder enc(b); enc.double_value(v); enc.flush();
          if (!ref_item(b, 0, 'd', 'D', got)) fail("UBJSON: not one float item", u); else if (!same(got, v)) fail("UBJSON: the item denotes another value", u); }
    }
    if (bad) VX_REPRO(bad << " of " << total << " encoded doubles do not denote the value pushed, first: " << first);
    VX_NOREPRO("all " << total << " encoded doubles denote the value pushed");
}
