# U-UB-INT-W, U-UB-LEN-R (DESIGN 6): UBJSON integer writers and the length reader
from core import FuncSpec, CopySpec, EnumSpec, Harness, INF
import common_specs as cs

E = 'include/jsoncons_ext/ubjson/ubjson_encoder.hpp'
P = 'include/jsoncons_ext/ubjson/ubjson_parser.hpp'
TY = 'include/jsoncons_ext/ubjson/ubjson_type.hpp'

COMMON = [
    (r'(jsoncons::ubjson::)?ubjson_type::(\w+)', r'ubjson_type_\2', 0, 40),
    (r'binary::native_to_big\(static_cast<(u?)int(8|16|32|64)_t>\((\w+)\),\s*std::back_inserter\(sink_\)\)', r'native_to_big_u\2((uint\2_t)(\1int\2_t)(\3))', 0, 12),
    (r'binary::native_to_big\(val,\s*std::back_inserter\(sink_\)\)', r'native_to_big_u64((uint64_t)(val))', 0, 2),
    (r'sink_\.push_back\(', 'vx_sink_push(', 0, 30),
    (r'JSONCONS_VISITOR_RETURN;', 'return;', 0, 12),
    (r'ubjson_errc::(\w+)', r'ubjson_errc_\1', 0, 20),
    (r'end_value\(\);', 'vx_end_value();', 0, 2),
]
OK = 'vx_dec_ok'
DECODES = lambda v: '(vx_sink_n >= 2 && vx_sink_n <= 9 && vx_sink_n == (size_t)spec_ub_int_size(vx_sink[0]) + 1 && spec_ub_int_value(vx_sink, &vx_dec_ok) == (%s) && vx_dec_ok)' % v
VISIT_I64 = [
    ('requires', 'vx_sink_n == 0 && vx_items == 0'),
    ('assigns', 'vx_sink_n, __CPROVER_object_whole(vx_sink), vx_items, vx_dec_ok'),
    ('ensures', '[C06][C08] every int64 is written as one UBJSON integer item that denotes exactly the value', DECODES('val')),
    ('ensures', '[C06] ... in the narrowest integer type that holds it', 'vx_sink_n == (size_t)spec_ub_int_min_size(val)'),
    ('ensures', '[C08] the item is counted once', 'vx_items == 1'),
]
VISIT_U64 = [
    ('requires', 'vx_sink_n == 0 && vx_items == 0 && *ec_p == 0'),
    ('assigns', 'vx_sink_n, __CPROVER_object_whole(vx_sink), vx_items, vx_dec_ok, *ec_p'),
    ('ensures', '[C06][C08] a uint64 up to 2^63-1 is written as one UBJSON integer item that denotes exactly the value, narrowest type',
     'val <= (uint64_t)INT64_MAX ==> (*ec_p == 0 && %s && vx_sink_n == (size_t)spec_ub_int_min_size((int64_t)val) && vx_items == 1)' % DECODES('(int64_t)val')),
    ('ensures', '[C06][C08] a uint64 above 2^63-1 has no UBJSON integer type: it is refused with an error, nothing is written and nothing is counted (never a missing element)',
     'val > (uint64_t)INT64_MAX ==> (*ec_p != 0 && vx_sink_n == 0 && vx_items == 0)'),
]
PUT_LENGTH = [
    ('requires', 'vx_sink_n == 0 && vx_thrown == 0'),
    ('assigns', 'vx_sink_n, __CPROVER_object_whole(vx_sink), vx_dec_ok, vx_thrown'),
    ('ensures', '[C06][C08] a length is written as a non-negative UBJSON integer item denoting exactly the length',
     'length <= (size_t)INT64_MAX ==> (vx_thrown == 0 && %s)' % DECODES('(int64_t)length')),
    ('ensures', '[C08] a length above 2^63-1 is refused', 'length > (size_t)INT64_MAX ==> (vx_thrown != 0 && vx_sink_n == 0)'),
]
AV = '(vx_src_n - __CPROVER_old(vx_src_pos))'
M = 'vx_src_at(__CPROVER_old(vx_src_pos))'
NB = 'spec_ub_int_size(%s)' % M
VAL = 'spec_ub_int_value(&vx_src[__CPROVER_old(vx_src_pos)], &vx_dec_ok)'
GET_LENGTH = [
    ('requires', 'vx_src_pos <= vx_src_n && vx_src_n <= VX_SRC_CAP - 9 && *ec_p == 0'),
    ('assigns', 'vx_src_pos, *ec_p, self->more_, vx_dec_ok'),
    ('ensures', '[C07][C05] empty or truncated input is unexpected_eof',
     '(%s == 0 || (%s > 0 && %s < 1 + (size_t)%s)) ==> *ec_p == ubjson_errc_unexpected_eof' % (AV, NB, AV, NB)),
    ('ensures', '[C07][C10] a non-negative integer item of any of the five integer types is the length',
     '(%s >= 1 && %s > 0 && %s >= 1 + (size_t)%s && %s >= 0) ==> (*ec_p == 0 && __CPROVER_return_value == (size_t)%s && vx_src_pos == __CPROVER_old(vx_src_pos) + 1 + (size_t)%s)' % (AV, NB, AV, NB, VAL, VAL, NB)),
    ('ensures', '[C07][C10] a negative length is refused with length_is_negative',
     '(%s >= 1 && %s > 0 && %s >= 1 + (size_t)%s && %s < 0) ==> *ec_p == ubjson_errc_length_is_negative' % (AV, NB, AV, NB, VAL)),
    ('ensures', '[C07] any other type marker is refused (a length must be an integer type)',
     '(%s >= 1 && %s == 0) ==> *ec_p != 0' % (AV, NB)),
    ('ensures', '[C07] an error stops the parser and yields length 0 or the partial default', '*ec_p != 0 ==> self->more_ == 0'),
    ('ensures', '[C05] the cursor stays within the input', 'vx_src_pos <= vx_src_n'),
]

# ---- begin_array / begin_object of the parser: depth guard, max_items guard (U-UB-ITEMS, U-UB-DEPTH)
PAL = {'ec': '(*ec_p)', 'more_': '(self->more_)', 'nesting_depth_': '(self->nesting_depth_)', 'max_nesting_depth_': '(self->max_nesting_depth_)',
       'max_items_': '(self->max_items_)', 'cursor_mode_': '(self->cursor_mode_)'}
BEGIN_RULES = COMMON + [
    (r'auto c = source_\.peek\(\);', 'struct vx_peek_result c = vx_source_peek();', 1),
    (r'c = source_\.peek\(\);', 'c = vx_source_peek();', 1, 3),
    (r'source_\.ignore\(1\);', 'vx_source_ignore(1);', 2, 4),
    (r'source_\.read\(', 'vx_source_read(', 1, 3),
    (r'get_length\(ec\)', 'get_length((struct ubjson_parser*)self, ec_p)', 2),
    (r'state_stack_\.emplace_back\(parse_mode::(\w+),\s*(\w+)(?:,\s*b)?\);', r'VX_STACK_EMPLACE(parse_mode_\1, \2);', 3),
    (r'visitor\.begin_(array|object)\(length, semantic_tag::none, \*this, ec\);', r'vx_ev_begin(1, length);', 2),
    (r'visitor\.begin_(array|object)\(semantic_tag::none, \*this, ec\);', r'vx_ev_begin(0, 0);', 1),
]
BEGIN_CONTRACT = [
    ('requires', 'vx_src_pos <= vx_src_n && vx_src_n <= VX_SRC_CAP - 9 && *ec_p == 0 && self->more_ && vx_pushes == 0 && vx_events == 0'),
    ('requires', 'self->nesting_depth_ >= 0 && self->nesting_depth_ <= self->max_nesting_depth_ && self->max_nesting_depth_ < INT_MAX'),
    ('assigns', 'vx_src_pos, *ec_p, self->more_, self->nesting_depth_, vx_pushes, vx_depth, vx_top, vx_events, vx_ev_counted, vx_ev_len, vx_dec_ok'),
    ('ensures', '[C10] a container opened at depth == max_nesting_depth is refused before anything is read, pushed or announced',
     '__CPROVER_old(self->nesting_depth_) == self->max_nesting_depth_ ==> (*ec_p == ubjson_errc_max_nesting_depth_exceeded && vx_pushes == 0 && vx_events == 0 && vx_src_pos == __CPROVER_old(vx_src_pos))'),
    ('ensures', '[C10] a container announcing more than max_items elements is never pushed and never announced to the visitor (refusal precedes any reservation)',
     '(vx_pushes == 1 ==> vx_top.length_ <= self->max_items_) && ((vx_events == 1 && vx_ev_counted) ==> vx_ev_len <= self->max_items_) && vx_pushes <= 1 && vx_events <= 1'),
    ('ensures', '[C10] max_items_exceeded is reported without push or visitor event', '*ec_p == ubjson_errc_max_items_exceeded ==> (vx_pushes == 0 && vx_events == 0 && !self->more_)'),
    ('ensures', '[C07] every error stops the parser without announcing a container', '*ec_p != 0 ==> (vx_events == 0 && vx_pushes == 0 && !self->more_)'),
    ('ensures', '[C07] success opens exactly one container below the depth limit', '*ec_p == 0 ==> (vx_pushes == 1 && vx_events == 1 && self->nesting_depth_ == __CPROVER_old(self->nesting_depth_) + 1 && vx_top.length_ == vx_ev_len)'),
]
SPECS = [
    EnumSpec('ubjson_errc', 'include/jsoncons_ext/ubjson/ubjson_error.hpp'),
    CopySpec('ubjson_types', TY, r'JSONCONS_INLINE_CONSTEXPR uint8_t null_type', r"count_marker = '#';", include_end=True,
             rules=[(r'JSONCONS_INLINE_CONSTEXPR uint8_t (\w+) = ([^;]+);', r'enum { ubjson_type_\1 = \2 };', 15, 30)]),
    FuncSpec('visit_int64', E, r'visit_int64\(int64_t val, semantic_tag, const ser_context&,\s*std::error_code&\) final', count=1,
             csig='void visit_int64(int64_t val)', contract=VISIT_I64, rules=COMMON),
    FuncSpec('visit_uint64', E, r'visit_uint64\(uint64_t val,\s*semantic_tag,\s*const ser_context&,\s*std::error_code& ec\) final', count=1,
             csig='void visit_uint64(uint64_t val, int* ec_p)', contract=VISIT_U64, aliases={'ec': '(*ec_p)'}, rules=COMMON),
    FuncSpec('put_length', E, r'void put_length\(std::size_t length\)', count=1,
             csig='void put_length(size_t length)', contract=PUT_LENGTH,
             rules=COMMON + [(r'JSONCONS_THROW\(ser_error\(ubjson_errc_too_many_items\)\);', '{ vx_thrown = VX_THROW_ser_error; return; }', 1)]),
    FuncSpec('get_length', P, r'std::size_t get_length\(std::error_code& ec\)', count=1,
             csig='size_t get_length(struct ubjson_parser* self, int* ec_p)', contract=GET_LENGTH, aliases={'ec': '(*ec_p)', 'more_': '(self->more_)'},
             rules=COMMON + [(r'source_\.read\(', 'vx_source_read(', 5, 8),
                             (r'binary::big_to_native<int(8|16|32|64)_t>\(', r'(int\1_t)big_to_native_u\1(', 4)]),
    EnumSpec('parse_mode', P),
    FuncSpec('begin_array', P, r'void begin_array\(json_visitor& visitor, std::error_code& ec\)', count=1,
             csig='void begin_array(struct ubjson_parser2* self, int* ec_p)', contract=BEGIN_CONTRACT, aliases=PAL, rules=BEGIN_RULES),
    FuncSpec('begin_object', P, r'void begin_object\(json_visitor& visitor, std::error_code& ec\)', count=1,
             csig='void begin_object(struct ubjson_parser2* self, int* ec_p)', contract=BEGIN_CONTRACT, aliases=PAL, rules=BEGIN_RULES),
]
GROUPS = {'binary': cs.binary_group(widths=(8, 16, 32, 64))}
SITE_CHECKS = [
    {'file': P, 'pattern': r'if \(\+\+state_stack_\.back\(\)\.index > max_items_\)\s*\{\s*ec = ubjson_errc::max_items_exceeded;', 'count': 2, 'props': ['C10'],
     'what': 'the two indefinite-length iteration sites (array, object) count elements against max_items before reading the next one'},
    {'file': P, 'pattern': r'state_stack_\.emplace_back\(parse_mode::(?!root)', 'count': 6, 'props': ['C10'], 'what': 'containers are pushed only inside begin_array / begin_object (three pushes each; the two other pushes are the root entry at reset)'},
]
HARNESSES = [
    Harness('begin_array', 'h_begin_array', enforce='begin_array', replace=['get_length'], method='LF', unwind=10, props=['C10', 'C07']),
    Harness('begin_object', 'h_begin_object', enforce='begin_object', replace=['get_length'], method='LF', unwind=10, props=['C10', 'C07']),
    Harness('visit_int64', 'h_visit_int64', enforce='visit_int64', method='LF', unwind=10, props=['C06', 'C08']),
    Harness('visit_uint64', 'h_visit_uint64', enforce='visit_uint64', method='LF', unwind=10, props=['C06', 'C08']),
    Harness('put_length', 'h_put_length', enforce='put_length', method='LF', unwind=10, props=['C06', 'C08']),
    Harness('get_length', 'h_get_length', enforce='get_length', method='LF', unwind=10, props=['C07', 'C10', 'C03']),
    Harness('lemma_length_rt', 'h_length_rt', dfcc=False, method='LF', unwind=10, props=['C06'],
            note='get_length(put_length(n)) == n for all n <= 2^63-1 (real extracted bodies)'),
]
