# unit staj_typed_array (C05, C06, C07): basic_staj_cursor::read_typed_array<T> - how a decoded typed array is handed to a vector<value_type>:
# one bulk copy when the element types agree (never memcpy with a null pointer, also for the empty array: F31), element-wise conversion otherwise.
# The template is instantiated by extraction rules for each of the ten element types (std::is_same / std::is_floating_point become 0 / 1).
from core import FuncSpec, EnumSpec, Harness
S = 'include/jsoncons/staj_cursor.hpp'
VT = {'int8_t': ('int8', 0), 'int16_t': ('int16', 0), 'int32_t': ('int32', 0), 'int64_t': ('int64', 0), 'uint8_t': ('uint8', 0), 'uint16_t': ('uint16', 0), 'uint32_t': ('uint32', 0), 'uint64_t': ('uint64', 0), 'float': ('float32', 1), 'double': ('float64', 1)}
def spec(vt):
    tagname, isfloat = VT[vt]
    same_tags = ['typed_array_tags_' + tagname] + (['typed_array_tags_half_float'] if vt == 'int16_t' else [])   # the half_float arm compares value_type with int16_t
    SAME = '(' + ' || '.join('vx_array_tag == %s' % t for t in same_tags) + ')'
    N = '(vx_buf_size / spec_elem_size(vx_array_tag))'
    KNOWN = 'spec_elem_size(vx_array_tag) != 0'
    contract = [
        ('requires', 'vx_copies == 0 && vx_pushes_n == 0 && vx_push_calls == 0 && vx_resizes == 0 && vx_to_end == 0 && (vx_buf_size > 0 ==> !vx_buf_null) && !vx_v_null'),
        ('assigns', 'vx_copies, vx_copy_bytes, vx_pushes_n, vx_push_calls, vx_push_half, vx_resizes, vx_v_size, vx_v_null, vx_to_end, vx_reserved'),
        ('ensures', '[C06][C07] a typed array whose element type is the vector\'s value type (%s) is taken over as it is: the vector gets exactly as many elements as the buffer holds, filled by one bulk copy of all their bytes (none for the empty array)' % vt,
         '(vx_is_typed_array && %s && %s) ==> (vx_resizes == 1 && vx_v_size == %s && vx_push_calls == 0 && vx_copies <= 1 && (%s > 0 ==> vx_copies == 1) && (vx_copies == 1 ==> vx_copy_bytes == %s * sizeof(%s)))' % (KNOWN, SAME, N, N, N, vt)),
        ('ensures', '[C06][C07] any other element type is converted element by element, each exactly once; half floats are decoded (binary16 -> value) when the vector holds floating-point numbers, otherwise their bits are passed on',
         '(vx_is_typed_array && %s && !%s) ==> (vx_resizes == 0 && vx_copies == 0 && vx_push_calls == 1 && vx_pushes_n == %s && vx_push_half == (vx_array_tag == typed_array_tags_half_float && %d))' % (KNOWN, SAME, N, isfloat)),
        ('ensures', '[C07] the array is consumed exactly once; without a typed array nothing happens', 'vx_to_end == (vx_is_typed_array ? 1 : 0) && (!vx_is_typed_array ==> (vx_copies == 0 && vx_push_calls == 0 && vx_resizes == 0))'),
    ]
    rules = [
        (r'using value_type = typename T::value_type;', '', 1),
        (r'is_typed_array\(\)', 'vx_is_typed_array', 1), (r'array_tag\(\)', 'vx_array_tag', 1), (r'typed_array_tags::(\w+)', r'typed_array_tags_\1', 11),
        (r'auto ta = typed_array_cast<const (\w+)>\(array_buffer\(\)\);', r'struct vx_span ta = vx_cast(sizeof(\1));', 11),
        (r'std::is_same<value_type, %s>::value' % vt, '1', 1, 2), (r'std::is_same<value_type, \w+>::value', '0', 9, 10), (r'std::is_floating_point<value_type>::value', str(isfloat), 1),
        (r'v\.resize\(ta\.size\(\)\);', 'vx_resize(ta.size);', 11), (r'v\.reserve\(ta\.size\(\)\);', 'vx_reserve(ta.size);', 12),
        (r'for \(auto item : ta\)\s*\{\s*v\.push_back\(static_cast<value_type>\(binary::decode_half\(item\)\)\);\s*\}', 'vx_push_all(ta.size, 1);', 1),
        (r'for \(auto item : ta\)\s*\{\s*v\.push_back\(static_cast<value_type>\(item\)\);\s*\}', 'vx_push_all(ta.size, 0);', 11),
        (r'std::memcpy\(v\.data\(\), ta\.data\(\), ta\.size\(\)\*sizeof\(value_type\)\);', 'VX_MEMCPY(vx_v_data(), ta.data, ta.size*sizeof(%s));' % vt, 11),
        (r'ta\.empty\(\)', '(ta.size == 0)', 0, 11), (r'to_end_array\(\);', 'vx_to_end++;', 1),
    ]
    nm = vt.replace('_t', '')
    return FuncSpec('read_typed_array_' + nm, S, r'read_typed_array\(T& v\)', count=1, csig='void read_typed_array_%s(void)' % nm, contract=contract, rules=rules)
FNS = [spec(vt) for vt in VT]
SPECS = [EnumSpec('typed_array_tags', 'include/jsoncons/typed_array.hpp')]
GROUPS = {'instances': FNS}
HARNESSES = [Harness(f.name, 'h_' + f.name, enforce=f.name, method='LF', props=['C05', 'C06', 'C07'],
                     note='read_typed_array<std::vector<%s>>; buffer: symbolic byte count, data() may be null when it is empty (std::vector / span); the vector\'s data() may be null after resize(0)' % f.name[len('read_typed_array_'):]) for f in FNS]
