# U-SRC-READER (C10): source_reader<Source>::read for byte sources - memory grows with the bytes actually supplied, never with the length claimed by the input
from core import FuncSpec, Harness
S = 'include/jsoncons/source.hpp'
LOOP = ('__CPROVER_assigns(unread, vx_bsize, vx_peak, vx_delivered, vx_remaining, vx_eof, vx_total_left) '
        '__CPROVER_loop_invariant(unread <= length && vx_delivered == length - unread && vx_bsize == vx_b0 + vx_delivered && vx_peak >= vx_bsize && vx_peak <= vx_b0 + vx_delivered + vx_chunk '
        '&& (vx_total_left == 0 ==> vx_eof) && vx_delivered <= __CPROVER_loop_entry(vx_total_left) && vx_total_left == __CPROVER_loop_entry(vx_total_left) - vx_delivered) '
        '__CPROVER_decreases(unread)')
READ = [
    ('requires', 'vx_chunk >= 1 && vx_chunk <= ((size_t)1 << 40) && vx_b0 == vx_bsize && vx_peak == vx_bsize && vx_delivered == 0 && vx_bsize <= ((size_t)1 << 60) && length <= ((size_t)1 << 60) && (vx_total_left == 0 ==> vx_eof)'),
    ('assigns', 'vx_bsize, vx_peak, vx_delivered, vx_remaining, vx_eof, vx_total_left'),
    ('ensures', '[C10] the destination buffer is never sized beyond what it held, plus the bytes the source actually delivered, plus one chunk - whatever length the input claimed',
     'vx_peak <= vx_b0 + vx_delivered + vx_chunk'),
    ('ensures', '[C10][C07] on return the buffer holds exactly the bytes delivered, and that count is returned; it never exceeds the length asked for nor what the input had',
     'vx_bsize == vx_b0 + vx_delivered && __CPROVER_return_value == vx_delivered && vx_delivered <= length && vx_delivered <= __CPROVER_old(vx_total_left)'),
    ('ensures', '[C07][C03] reading stops early only at the end of the input (a short result means truncated input)', '__CPROVER_return_value < length ==> vx_eof'),
]
SPECS = [
    FuncSpec('source_reader_read', S, r'ext_traits::is_byte<typename Buffer::value_type>::value, std::size_t>::type\s*read\(Source& source, Buffer& buffer, std::size_t length\)', count=1,
             csig='size_t source_reader_read(size_t length)', contract=READ, loops={0: LOOP, 'count': 1},
             rules=[(r'source\.eof\(\)', 'vx_eof', 1), (r'source\.remaining\(\)', 'vx_remaining', 1), (r'source\.chunk_size\(\)', 'vx_chunk', 1, 4),
                    (r'buffer\.size\(\)', 'vx_bsize', 2), (r'buffer\.resize\(', 'vx_resize(', 4),
                    (r'std::size_t actual = source\.read_buffer\(reinterpret_cast<value_type\*>\(&buffer\[0\]\) \+ offset, n\);', 'size_t actual = vx_src_read(n); VX_DELIVER(actual, offset, n);', 1),
                    (r'std::size_t actual = source\.read\(reinterpret_cast<value_type\*>\(&buffer\[0\]\) \+ offset, n\);', 'size_t actual = vx_src_read(n); VX_DELIVER(actual, offset, n);', 1)]),
]
HARNESSES = [Harness('read', 'h_read', enforce='source_reader_read', loop_contracts=True, method='LC', props=['C10', 'C07', 'C03'], expect_classes={'loop_invariant_step': 1})]
