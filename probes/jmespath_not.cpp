// finding probe jmespath_not (C13, C05): a not-expression whose operand begins with a projection ("![].b", "!*"): jsoncons trips an internal assertion of its
// compiler (assertion_error: '!rhs.empty()') - F48.  The neighbours (not applied to identifiers, parentheses, index expressions) hold.
#include <jsoncons/json.hpp>
#include <jsoncons_ext/jmespath/jmespath.hpp>
#include <iostream>
using namespace jsoncons;
struct pcase { const char* id; const char* expr; const char* want; };
static const pcase cases[] = {
    {"not_flatten_projection", "![].b", "true"}, {"not_object_wildcard", "!*", "false"}, {"not_flatten_in_multiselect", "{y: ![].b}", "{\"y\":true}"},
    {"not_identifier", "!a", "false"}, {"not_missing", "!zz", "true"}, {"not_parenthesised", "!(a)", "false"}, {"not_index", "!a[0]", "false"}, {"double_not", "!!a", "true"}, {"not_in_or", "!a || `1`", "1"},
};
int main(int argc, char** argv)
{
    const json doc = json::parse(R"({"a":[{"b":[{"c":1}]}]})");
    for (const pcase& c : cases) {
        if (argc > 1 && std::string(argv[1]) != c.id) continue;
        std::string what;
        try { std::error_code ec; json r = jmespath::search(doc, c.expr, ec); if (ec) what = "error: " + ec.message(); else if (r != json::parse(c.want)) what = "result " + r.to_string(); }
        catch (const std::exception& e) { what = std::string("exception: ") + e.what(); }
        if (what.empty()) std::cout << "PROBE " << c.id << " HOLDS\n"; else std::cout << "PROBE " << c.id << " FAILS: " << c.expr << " should be " << c.want << ", got " << what << "\n";
    }
    return 0;
}
