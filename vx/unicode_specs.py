# shared FuncSpecs for utility/unicode_traits.hpp
from core import FuncSpec, CopySpec, EnumSpec, INF
U = 'include/jsoncons/utility/unicode_traits.hpp'

TABLES = CopySpec('unicode_tables', U, r'JSONCONS_INLINE_CONSTEXPR uint32_t offsets_from_utf8\[7\]', r'enum class strict_flag', include_end=False,
                  rules=[(r'JSONCONS_INLINE_CONSTEXPR', 'static const', 14, 16), (r'\binline\s+static bool', 'static bool', 1), (r'\binline\s+bool', 'static bool', 3),
                         (r'\bnoexcept\b', '', 3)])
ERRC = EnumSpec('unicode_errc', U)

B = lambda i: 'bytes[%d]' % i
LEGAL_CONTRACT = [
    # precondition from the call sites (site-checked): length is the length announced by the table for the first byte
    ('requires', 'length >= 1 && length <= 6 && length == (size_t)trailing_bytes_for_utf8[bytes[0]] + 1 && __CPROVER_r_ok(bytes, length)'),
    ('assigns', ''),
    ('ensures', '[C05] the result is one of the documented error codes',
     '__CPROVER_return_value == unicode_errc_success || __CPROVER_return_value == unicode_errc_over_long_utf8_sequence || __CPROVER_return_value == unicode_errc_bad_continuation_byte || __CPROVER_return_value == unicode_errc_source_illegal'),
    ('ensures', '[C02][C07][C08] success exactly for the well-formed sequences of Unicode Table 3-7 (no overlong forms, no surrogates, nothing above U+10FFFF)',
     '(__CPROVER_return_value == unicode_errc_success) == (length <= 4 && spec_utf8_len(bytes[0]) == (int)length && spec_wf_utf8(bytes[0], length > 1 ? bytes[1] : 0, length > 2 ? bytes[2] : 0, length > 3 ? bytes[3] : 0, (int)length))'),
]
IS_LEGAL = FuncSpec('is_legal_utf8', U, r'unicode_errc is_legal_utf8\(const uint8_t\* bytes, std::size_t length\)', count=1,
                    csig='int is_legal_utf8(const uint8_t* bytes, size_t length)', contract=LEGAL_CONTRACT,
                    rules=[(r'unicode_errc::(\w+)', r'unicode_errc_\1', 8, 12), (r'unicode_errc\(\)', 'unicode_errc_success', 1),
                           (r'reinterpret_cast<const uint8_t\*>\(bytes\)', '(bytes)', 1)])
