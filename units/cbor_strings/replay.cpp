// replay for unit cbor_strings: arrays and maps whose items are definite- and indefinite-length text and byte strings, big numbers and decimal fractions in
// every order of two and three (so that every string is read after every kind of item that uses the parser's scratch buffers), built together with the value
// RFC 8949 assigns to them, and documents in a stringref namespace in which definite strings of lengths 2..4 and indefinite strings precede references;
// decoded by the real decoder from a byte vector and from a stream.
#include <jsoncons/json.hpp>
#include <jsoncons_ext/cbor/cbor.hpp>
#include "replay_util.hpp"
#include <sstream>
using namespace jsoncons;
typedef std::vector<uint8_t> bytes;
static void put_text(bytes& b, const std::string& s) { b.push_back((uint8_t)(0x60 + s.size())); b.insert(b.end(), s.begin(), s.end()); }
static void put_bytes(bytes& b, const std::string& s) { b.push_back((uint8_t)(0x40 + s.size())); b.insert(b.end(), s.begin(), s.end()); }
struct item { bytes enc; json val; };
static std::vector<item> items()
{
    std::vector<item> v;
    { item i; put_text(i.enc, "def"); i.val = json("def"); v.push_back(i); }
    { item i; i.enc.push_back(0x7f); put_text(i.enc, "ab"); put_text(i.enc, "c"); i.enc.push_back(0xff); i.val = json("abc"); v.push_back(i); }
    { item i; i.enc.push_back(0x7f); put_text(i.enc, "xy"); i.enc.push_back(0xff); i.val = json("xy"); v.push_back(i); }
    { item i; i.enc.push_back(0x7f); i.enc.push_back(0xff); i.val = json(""); v.push_back(i); }
    { item i; put_bytes(i.enc, "BY"); i.val = json(byte_string_arg, std::string("BY")); v.push_back(i); }
    { item i; i.enc.push_back(0x5f); put_bytes(i.enc, "P"); put_bytes(i.enc, "QR"); i.enc.push_back(0xff); i.val = json(byte_string_arg, std::string("PQR")); v.push_back(i); }
    { item i; i.enc = {0xc2, 0x49, 1, 0, 0, 0, 0, 0, 0, 0, 0}; i.val = json("18446744073709551616", semantic_tag::bigint); v.push_back(i); }
    { item i; i.enc = {0xc4, 0x82, 0x21, 0x19, 0x6a, 0xb3}; i.val = json("273.15", semantic_tag::bigdec); v.push_back(i); }
    return v;
}
static bool same(const json& a, const json& b) { return a == b && a.to_string() == b.to_string(); }
int main(int argc, char** argv)
{
    if (argc < 3) return 2;
    int bad = 0, total = 0; std::string first; auto its = items();
    auto check = [&](const bytes& doc, const json& want, const std::string& what) {
        for (int mode = 0; mode < 2; ++mode) { ++total;
            try { json got; if (mode == 0) got = cbor::decode_cbor<json>(doc); else { std::string s(doc.begin(), doc.end()); std::istringstream is(s); got = cbor::decode_cbor<json>(is); }
                  if (!same(got, want)) { if (!bad) first = what + (mode ? " (stream)" : " (bytes)") + ": decoded " + got.to_string() + ", RFC 8949 says " + want.to_string(); ++bad; } }
            catch (const std::exception& e) { if (!bad) first = what + ": " + e.what(); ++bad; } } };
    for (size_t a = 0; a < its.size(); ++a) for (size_t b = 0; b < its.size(); ++b) for (size_t c = 0; c <= its.size(); ++c) {
        bytes doc; json want(json_array_arg); size_t n = c < its.size() ? 3 : 2; doc.push_back((uint8_t)(0x80 + n));
        for (size_t k : {a, b, c}) { if (k >= its.size()) continue; doc.insert(doc.end(), its[k].enc.begin(), its[k].enc.end()); want.push_back(its[k].val); }
        check(doc, want, "array of items " + std::to_string(a) + "," + std::to_string(b) + "," + std::to_string(c));
        // the same items as member values with text keys that are themselves definite / indefinite
        bytes m; json wm(json_object_arg); m.push_back(0xa2); put_text(m, "k1"); m.insert(m.end(), its[a].enc.begin(), its[a].enc.end()); wm.try_emplace("k1", its[a].val);
        m.push_back(0x7f); put_text(m, "k"); put_text(m, "2"); m.push_back(0xff); m.insert(m.end(), its[b].enc.begin(), its[b].enc.end()); wm.try_emplace("k2", its[b].val);
        if (c == 0) check(m, wm, "map with items " + std::to_string(a) + "," + std::to_string(b));
    }
    // stringref namespace: strings of length L (definite), an indefinite string of 5 bytes (never entered), then reference 0 and possibly 1
    for (int L = 2; L <= 4; ++L) for (int kind = 0; kind < 2; ++kind) {
        std::string s1(L, 'p'), s2 = "longer-string";
        bytes doc = {0xd9, 0x01, 0x00, 0x85}; json want(json_array_arg);
        if (kind == 0) put_text(doc, s1); else put_bytes(doc, s1); want.push_back(kind == 0 ? json(s1) : json(byte_string_arg, s1));
        doc.push_back(kind == 0 ? 0x7f : 0x5f); if (kind == 0) put_text(doc, "indef"); else put_bytes(doc, "indef"); doc.push_back(0xff); want.push_back(kind == 0 ? json("indef") : json(byte_string_arg, std::string("indef")));
        put_text(doc, s2); want.push_back(s2);
        doc.push_back(0xd8); doc.push_back(0x19); doc.push_back(0x00);           // reference 0: s1 if L >= 3, else s2
        want.push_back(L >= 3 ? (kind == 0 ? json(s1) : json(byte_string_arg, s1)) : json(s2));
        if (L >= 3) { doc.push_back(0xd8); doc.push_back(0x19); doc.push_back(0x01); want.push_back(s2); } else { doc.push_back(0xf6); want.push_back(json::null()); }
        check(doc, want, "stringref namespace with a first string of " + std::to_string(L) + " bytes");
    }
    if (bad) VX_REPRO(bad << " of " << total << " documents are decoded to another value than RFC 8949 / the stringref specification assign, first: " << first);
    VX_NOREPRO("all " << total << " documents are decoded to the value RFC 8949 and the stringref specification assign");
}
