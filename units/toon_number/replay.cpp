// replay for unit toon_number: (1) every string of up to 5 characters over the alphabet 0 1 5 8 - + . e E (and x) as an array element and as an object value:
// encode_toon then decode_toon must return the same string (a string that looks like a number must have been quoted, one that does not must not be read as a
// number); (2) numbers: integers and doubles around 0, with fractions starting with 0., tiny and huge magnitudes: the round trip must return an equal number.
#include <jsoncons/json.hpp>
#include <jsoncons_ext/toon/encode_toon.hpp>
#include <jsoncons_ext/toon/decode_toon.hpp>
#include "replay_util.hpp"
using namespace jsoncons;
int main(int argc, char** argv)
{
    if (argc < 3) return 2;
    const char alpha[] = {'0', '1', '5', '8', '-', '+', '.', 'e', 'E', 'x'};
    int bad = 0, total = 0; std::string first;
    auto check = [&](const json& v, const std::string& what) {
        ++total;
        try { std::string t; toon::encode_toon(v, t); json b = toon::decode_toon<json>(t, toon::toon_options{});
              if (!(b == v) || b.type() != v.type() && !(b.is_number() && v.is_number())) { if (!bad) first = what + ": " + v.to_string() + " written as " + t + " read back as " + b.to_string(); ++bad; } }
        catch (const std::exception& e) { if (!bad) first = what + ": " + v.to_string() + ": " + e.what(); ++bad; }
    };
    std::vector<std::string> cur = {""};
    for (int len = 1; len <= 5; ++len) {
        std::vector<std::string> next;
        for (auto& s : cur) for (char c : alpha) { if (len == 5 && c == 'x') continue; next.push_back(s + c); }
        for (auto& s : next) { json a(json_array_arg); a.push_back(s); check(a, "string in an array"); if (len <= 4) { json o(json_object_arg); o["k"] = s; check(o, "string as an object value"); } }
        cur.swap(next);
    }
    const double ds[] = {0.5, -0.5, 0.25, 0.1, 0.05, 0.001, 1e-7, -1e-7, 1.5, 10.5, 100.0, 1e5, 1e21, 1.5e300, 123456.789, 0.30000000000000004, 5e-324, 1.7976931348623157e308, 2.5e-5, -0.75, 0.0};
    for (double d : ds) { json a(json_array_arg); a.push_back(d); check(a, "double in an array"); json o(json_object_arg); o["k"] = d; check(o, "double as an object value"); }
    const int64_t is[] = {0, 1, -1, 7, 8, 10, 100, -100, 1234567890123456789LL, INT64_MIN};
    for (int64_t i : is) { json a(json_array_arg); a.push_back(i); check(a, "integer in an array"); }
    { json a(json_array_arg); a.push_back(UINT64_MAX); check(a, "unsigned integer in an array"); }
    if (bad) VX_REPRO(bad << " of " << total << " TOON round trips differ, first: " << first);
    VX_NOREPRO("all " << total << " TOON round trips of number look-alike strings and of numbers are the identity");
}
