# vx core: mechanical extraction of C-style functions from the jsoncons headers,
# assembly into a C translation unit with CBMC code contracts, CBMC driver.
# Python 3 stdlib only.  See /verif/DESIGN.md section 3.
import re, os, sys, json, hashlib, subprocess, time, shutil

VERIF = os.path.dirname(os.path.dirname(os.path.abspath(__file__)))
REPO = os.environ.get('VX_REPO', '/repo')
OUT = os.path.join(VERIF, 'out')


class Broken(Exception):
    """Extraction / tool failure: the check is broken (exit 2), never a violation."""
    pass


# ----------------------------------------------------------------------------
# source text handling
# ----------------------------------------------------------------------------

def read_header(rel):
    p = os.path.join(REPO, rel)
    try:
        with open(p, encoding='utf-8', errors='replace') as f:
            return f.read()
    except OSError as e:
        raise Broken('cannot read %s: %s' % (p, e))


def blank_comments(text):
    """Replace comments by blanks (newlines kept, so offsets and lines stay);
    returns (text_without_comments, literal_mask) where literal_mask[i] is True
    inside string/char literals (so that braces in literals are not counted)."""
    out = list(text)
    mask = [False] * len(text)
    i, n = 0, len(text)
    while i < n:
        c = text[i]
        if c == '/' and i + 1 < n and text[i + 1] == '/':
            j = text.find('\n', i)
            if j < 0:
                j = n
            for k in range(i, j):
                out[k] = ' '
            i = j
        elif c == '/' and i + 1 < n and text[i + 1] == '*':
            j = text.find('*/', i + 2)
            j = n if j < 0 else j + 2
            for k in range(i, j):
                if out[k] != '\n':
                    out[k] = ' '
            i = j
        elif c == '"' or c == "'":
            # char literal vs digit separator: treat ' after alnum as separator only for digits (not used here)
            q = c
            j = i + 1
            while j < n and text[j] != q:
                if text[j] == '\\':
                    j += 1
                if j < n and text[j] == '\n':
                    break
                j += 1
            for k in range(i, min(j + 1, n)):
                mask[k] = True
            i = j + 1
        else:
            i += 1
    return ''.join(out), mask


def match_close(text, mask, pos, open_ch, close_ch):
    """text[pos] == open_ch; return index of the matching close_ch."""
    assert text[pos] == open_ch, (text[pos:pos + 20], open_ch)
    depth = 0
    i = pos
    n = len(text)
    while i < n:
        if not mask[i]:
            ch = text[i]
            if ch == open_ch:
                depth += 1
            elif ch == close_ch:
                depth -= 1
                if depth == 0:
                    return i
        i += 1
    raise Broken('unbalanced %s at offset %d' % (open_ch, pos))


class Located:
    def __init__(self, rel, sig, body, line_sig, line_body, line_end):
        self.rel = rel
        self.sig = sig            # text from anchor start to just before '{'
        self.body = body          # text between the outer braces (exclusive)
        self.line_sig = line_sig
        self.line_body = line_body  # line on which the opening brace stands
        self.line_end = line_end


_hdr_cache = {}


def header_nc(rel):
    if rel not in _hdr_cache:
        t = read_header(rel)
        _hdr_cache[rel] = (t,) + blank_comments(t)
    return _hdr_cache[rel]


def locate(rel, anchor, ordinal=0, count=None, body_match=None, after=None):
    """Find the function whose signature matches the regex `anchor` (matched on
    the comment-blanked header); `ordinal` picks among several matches that are
    followed by a body; `count` (optional) is the expected number of such matches."""
    raw, nc, mask = header_nc(rel)
    hits = []
    start_at = 0
    if after:
        # `after`: regex that must match exactly once (e.g. 'class and_operator final'); the definition is searched from there on (member functions of a class)
        ma = list(re.finditer(after, nc))
        if len(ma) != 1:
            raise Broken('anchor %r in %s: the region start %r matched %d times, expected 1' % (anchor, rel, after, len(ma)))
        start_at = ma[0].end()
    for m in re.compile(anchor).finditer(nc, start_at):
        # after the anchor: find the parameter list's '(' (the anchor should end at or before it)
        # the parameter list is the first '(' of the match whose ')' lies at/after the end of the match
        # (anchors may start in the return type, e.g. to tell enable_if overloads apart)
        p = q = -1
        last_top = None
        pos = m.start()
        while pos < max(m.end(), m.start() + 1):
            if nc[pos] == '(' and not mask[pos]:
                try:
                    qq = match_close(nc, mask, pos, '(', ')')
                except Broken:
                    break
                last_top = (pos, qq)
                if qq >= m.end() - 1:
                    p, q = pos, qq
                    break
                pos = qq + 1
            else:
                pos += 1
        if p < 0 and last_top:
            p, q = last_top
        if p < 0:
            p = nc.find('(', m.end())
            if p < 0:
                continue
            try:
                q = match_close(nc, mask, p, '(', ')')
            except Broken:
                continue
        # skip qualifiers up to '{' or ';'
        k = q + 1
        while k < len(nc) and nc[k] not in '{;':
            if nc[k] == '(':
                k = match_close(nc, mask, k, '(', ')')
            k += 1
        if k >= len(nc) or nc[k] != '{':
            continue   # a declaration or a call, not a definition
        e = match_close(nc, mask, k, '{', '}')
        if body_match and not re.search(body_match, nc[k:e + 1], flags=re.S):
            continue
        hits.append((m.start(), k, e))
    if count is not None and len(hits) != count:
        raise Broken('anchor %r in %s: expected %d definitions, found %d' % (anchor, rel, count, len(hits)))
    if ordinal >= len(hits):
        raise Broken('anchor %r in %s: definition #%d not found (%d found)' % (anchor, rel, ordinal, len(hits)))
    s, k, e = hits[ordinal]
    ln = lambda off: nc.count('\n', 0, off) + 1
    return Located(rel, nc[s:k], nc[k + 1:e], ln(s), ln(k), ln(e))


def locate_text(rel, start_re, end_re, include_end=True):
    """Copy a verbatim region (macro, table) from start_re to end_re."""
    raw, nc, mask = header_nc(rel)
    m = re.search(start_re, nc)
    if not m:
        raise Broken('region start %r not found in %s' % (start_re, rel))
    m2 = re.compile(end_re).search(nc, m.end())
    if not m2:
        raise Broken('region end %r not found in %s' % (end_re, rel))
    e = m2.end() if include_end else m2.start()
    return nc[m.start():e], nc.count('\n', 0, m.start()) + 1


def apply_rules(text, rules, what):
    """rules: list of (regex, replacement, lo, hi) or (regex, replacement, n).
    Returns (text, fired) and raises Broken when a count is out of range."""
    fired = []
    for r in rules:
        if len(r) == 3:
            pat, rep, lo = r
            hi = lo
        else:
            pat, rep, lo, hi = r
        text, n = re.subn(pat, rep, text, flags=re.S)
        fired.append((pat, n))
        if n < lo or n > hi:
            raise Broken('EXTRACTION-BROKEN %s rule=%r fired %d times, expected %s' %
                         (what, pat, n, lo if lo == hi else '%d..%d' % (lo, hi)))
    return text, fired


# rules every body gets (R1 lexical); counts are unconstrained (0..inf) because they
# are pure re-spellings; unit recipes add counted rules for everything structural.
INF = 10 ** 9
R1_COMMON = [
    (r'\bstatic_cast<\s*([^<>]+?)\s*>\s*\(', r'(\1)(', 0, INF),
    (r'\breinterpret_cast<\s*([^<>]+?)\s*>\s*\(', r'(\1)(', 0, INF),
    (r'\bstd::size_t\b', 'size_t', 0, INF),
    (r'\bstd::u?int(8|16|32|64)_t\b', lambda m: m.group(0)[5:], 0, INF),
    (r'\bnullptr\b', '0', 0, INF),
    (r'\bstatic\s+constexpr\b', 'const', 0, INF),
    (r'\bconstexpr\b', 'const', 0, INF),
    (r'\bnoexcept\b', '', 0, INF),
    (r'\bJSONCONS_FALLTHROUGH\s*;', '', 0, INF),
    (r'\bJSONCONS_(UN)?LIKELY\b', '', 0, INF),
    (r'\bstd::memcpy\b', 'memcpy', 0, INF),
    (r'\bJSONCONS_UNREACHABLE\s*\(\s*\)', '__CPROVER_assert(0, "[C05] JSONCONS_UNREACHABLE reached")', 0, INF),
    (r'\bJSONCONS_ASSERT\s*\(', 'VX_JSONCONS_ASSERT(', 0, INF),
    (r'\(?std::numeric_limits<\s*(u?)int(8|16|32|64)_t\s*>::(max|min|lowest)\)?\(\)',
     lambda m: ('UINT%s_MAX' % m.group(2) if m.group(3) == 'max' else '0') if m.group(1) else ('INT%s_MAX' % m.group(2) if m.group(3) == 'max' else 'INT%s_MIN' % m.group(2)), 0, INF),
    (r'\(std::numeric_limits<\s*(std::)?size_t\s*>::max\)\(\)', 'SIZE_MAX', 0, INF),
    (r'\(std::numeric_limits<\s*int\s*>::max\)\(\)', 'INT_MAX', 0, INF),
    (r'\(std::numeric_limits<\s*int\s*>::min\)\(\)', 'INT_MIN', 0, INF),
    (r'\(std::min\)\(', 'VX_MIN(', 0, INF),
    (r'\(std::max\)\(', 'VX_MAX(', 0, INF),
]


def find_loops(body, include_do=False):
    """Offsets at which a loop contract is inserted, in textual order: just after the closing ')' of each while/for header; `do {..} while(..);` loops
    are counted only on request (loops={'do_while': True, ...}, so that the ordinals of older recipes stay as they are) and take their contract right
    after the keyword `do` (the only place where CBMC 6.11 accepts it)."""
    _, mask = blank_comments(body)
    res = []
    for m in re.finditer(r'\b(while|for)\s*\(', body):
        if mask[m.start()]:
            continue
        p = m.end() - 1
        q = match_close(body, mask, p, '(', ')')
        if m.group(1) == 'while':
            t = q + 1
            while t < len(body) and body[t] in ' \t\r\n':
                t += 1
            if t < len(body) and body[t] == ';':
                continue   # do-while tail (or empty-body while, which we never have under contract)
        res.append((m.start(), q + 1))
    if include_do:
        for m in re.finditer(r'\bdo\b(?=\s*\{)', body):
            if not mask[m.start()]:
                res.append((m.start(), m.end()))
    return [off for _, off in sorted(res)]


def splice_loops(body, loops, what):
    """loops: {ordinal: 'contract text'}; inserted on the same line as the loop header."""
    if not loops:
        return body
    offs = find_loops(body, bool(loops.get('do_while')))
    if loops.get('optional') and len(offs) == 0:
        return body     # the function has no loop (any more): it is judged by its postconditions alone
    for o in loops:
        if isinstance(o, int) and o >= len(offs):
            raise Broken('EXTRACTION-BROKEN %s: loop ordinal %d not found (%d loops)' % (what, o, len(offs)))
    exp = loops.get('count')
    out = body
    for o in sorted([k for k in loops if isinstance(k, int)], reverse=True):
        txt = ' '.join(loops[o].split())
        out = out[:offs[o]] + ' ' + txt + ' ' + out[offs[o]:]
    if exp is not None and exp != len(offs):
        raise Broken('EXTRACTION-BROKEN %s: expected %d loops, found %d' % (what, exp, len(offs)))
    return out


# ----------------------------------------------------------------------------
# assembling a function under contract
# ----------------------------------------------------------------------------

def oneline(s):
    return ' '.join(s.split())


class FuncSpec:
    """One extracted function.
      name      C name of the function
      file      header path relative to the repository root
      anchor    regex matching the start of the C++ definition
      ordinal   which definition among the matches
      sig_check regex the located C++ signature must match (else Broken)
      csig      the C signature to emit (R2/R3/R4 of DESIGN 3.3)
      contract  list of clauses: ('requires', expr) | ('ensures', '[Cxx] text', expr) | ('assigns', targets)
      aliases   dict name -> expansion, emitted as #define before the body, #undef after
      rules     counted rewrite rules
      loops     {ordinal: contract text, 'count': n[, 'optional': True: a body without any loop is accepted as it is]}
      prologue  C text inserted at the start of the body (ghost only)
      slice_from  program slice (DESIGN 3.3 R5): regex that must match exactly once in the body; only the text from that match to the end
                of the body is kept (everything before it is dropped and named in the evidence)
      slice_to  optional regex (matched in the text kept by slice_from, exactly once): the text from its match on is dropped too
    """
    def __init__(self, name, file, anchor, csig, ordinal=0, count=None, sig_check=None, body_match=None, contract=(),
                 aliases=None, rules=(), loops=None, prologue='', common=True, epilogue='', slice_from=None, slice_to=None, after=None):
        self.__dict__.update(locals())
        del self.__dict__['self']


def render_func(fs, info):
    loc = locate(fs.file, fs.anchor, fs.ordinal, fs.count, fs.body_match, getattr(fs, 'after', None))
    if fs.sig_check and not re.search(fs.sig_check, oneline(loc.sig)):
        raise Broken('EXTRACTION-BROKEN %s: signature %r does not match %r' % (fs.name, oneline(loc.sig), fs.sig_check))
    what = '%s (%s:%d)' % (fs.name, fs.file, loc.line_sig)
    src_body = loc.body
    dropped_lines = 0
    if fs.slice_from:
        ms = list(re.finditer(fs.slice_from, src_body))
        if len(ms) != 1:
            raise Broken('EXTRACTION-BROKEN %s: slice start %r matched %d times, expected 1' % (what, fs.slice_from, len(ms)))
        dropped_lines = src_body.count('\n', 0, ms[0].start())
        src_body = src_body[ms[0].start():]
    if fs.slice_to:
        me = list(re.finditer(fs.slice_to, src_body))
        if len(me) != 1:
            raise Broken('EXTRACTION-BROKEN %s: slice end %r matched %d times, expected 1' % (what, fs.slice_to, len(me)))
        src_body = src_body[:me[0].start()]
    body, fired = apply_rules(src_body, list(fs.rules), what)
    if fs.common:
        body, f2 = apply_rules(body, R1_COMMON, what)
        fired += f2
    loop_lines = []
    if fs.loops:
        _offs = find_loops(body, bool(fs.loops.get('do_while')))
        for _o in sorted(k for k in fs.loops if isinstance(k, int)):
            if _o < len(_offs):
                loop_lines.append(loc.line_body + dropped_lines + body.count('\n', 0, _offs[_o]))
    body = splice_loops(body, fs.loops or {}, what)
    lines = []
    lines.append(fs.csig)
    clauses = []
    for i, c in enumerate(fs.contract):
        kind = c[0]
        if kind == 'ensures':
            _, desc, expr = c
        elif kind in ('requires', 'assigns', 'frees'):
            desc, expr = '', c[1]
        else:
            raise Broken('bad contract clause kind %r' % kind)
        lines.append('#line %d "contract/%s"' % (i + 1, fs.name))
        lines.append('__CPROVER_%s(%s)' % (kind, oneline(expr)))
        clauses.append({'kind': kind, 'desc': desc, 'expr': oneline(expr)})
    for a, e in (fs.aliases or {}).items():
        lines.append('#define %s %s' % (a, e))
    lines.append('{ %s' % oneline(fs.prologue))
    lines.append('#line %d "%s"' % (loc.line_body + dropped_lines, fs.file))
    lines.append(body)
    lines.append(fs.epilogue + '}')
    for a in (fs.aliases or {}):
        lines.append('#undef %s' % a.split('(')[0])
    info['functions'][fs.name] = {
        'file': fs.file, 'lines': [loc.line_sig, loc.line_end], 'clauses': clauses,
        'rules_fired': [[p, n] for p, n in fired if n],
        'sha256_body': hashlib.sha256(loc.body.encode()).hexdigest(),
        'loop_contracts': len([k for k in (fs.loops or {}) if isinstance(k, int)]), 'loop_lines': loop_lines,
        'slice': (('only the text from %r to %s is under contract; the %d lines before it%s are dropped' % (fs.slice_from, ('the match of %r' % fs.slice_to) if fs.slice_to else 'the end of the function body', dropped_lines, ' and everything after it' if fs.slice_to else '')) if fs.slice_from
                  else ('only the text before the match of %r is under contract; everything after it is dropped' % fs.slice_to) if fs.slice_to else None),
    }
    return '\n'.join(lines) + '\n'


class DeclSpec:
    """Declaration of a function that is used only through its contract (the contract is proved in another unit)."""
    def __init__(self, name, fname, csig, contract, proved_in):
        self.name, self.fname, self.csig, self.contract, self.proved_in = name, fname, csig, contract, proved_in


def render_decl(ds, info):
    lines = [ds.csig]
    clauses = []
    for i, c in enumerate(ds.contract):
        kind = c[0]
        desc, expr = (c[1], c[2]) if kind == 'ensures' else ('', c[1])
        lines.append('#line %d "contract/%s"' % (i + 1, ds.fname))
        lines.append('__CPROVER_%s(%s)' % (kind, oneline(expr)))
        clauses.append({'kind': kind, 'desc': desc, 'expr': oneline(expr)})
    lines.append(';')
    info['functions'][ds.fname] = {'file': '(contract only; proved in unit %s)' % ds.proved_in, 'lines': [0, 0], 'clauses': clauses,
                                   'rules_fired': [], 'sha256_body': '', 'loop_contracts': 0}
    return '\n'.join(lines) + '\n'


class CopySpec:
    """Verbatim copy of a macro/table region from a header (plus optional rules)."""
    def __init__(self, name, file, start, end, rules=(), include_end=True, common=False):
        self.__dict__.update(locals())
        del self.__dict__['self']


def render_copy(cs, info):
    txt, line = locate_text(cs.file, cs.start, cs.end, cs.include_end)
    txt, fired = apply_rules(txt, list(cs.rules), cs.name)
    if cs.common:
        txt, _ = apply_rules(txt, R1_COMMON, cs.name)
    info['copies'][cs.name] = {'file': cs.file, 'line': line, 'sha256': hashlib.sha256(txt.encode()).hexdigest()}
    return '#line %d "%s"\n%s\n' % (line, cs.file, txt)


def render_enum(es, info):
    """enum class E { a = 1, b, ... } -> enum E { E_a = 1, E_b, ... } (values stay those of the source)"""
    raw, nc, mask = header_nc(es.file)
    m = re.search(r'\benum\s+(?:class\s+)?%s\b[^{;]*\{' % re.escape(es.cxx_name), nc)
    if not m:
        raise Broken('enum %s not found in %s' % (es.cxx_name, es.file))
    e = match_close(nc, mask, m.end() - 1, '{', '}')
    # preprocessor lines inside the enumerator list (#if !defined(JSONCONS_NO_DEPRECATED) ... #endif): the directives are dropped and the enumerators they
    # guard are kept, which is the default configuration (JSONCONS_NO_DEPRECATED is not defined by the library or its test-suite)
    body = re.sub(r'(?m)^[ \t]*#.*$', '', nc[m.end():e])
    items = [x.strip() for x in body.split(',') if x.strip()]
    out = []
    for it in items:
        mm = re.match(r'^(\w+)\s*(=\s*(.+))?$', it, re.S)
        if not mm:
            raise Broken('enum %s: cannot parse enumerator %r' % (es.cxx_name, it))
        val = mm.group(3)
        if val:
            val = re.sub(r'\b([A-Za-z_]\w*)\b', lambda k: es.name + '_' + k.group(1) if not re.match(r'^(0x|\d)', k.group(1)) else k.group(1), val)
        out.append('%s_%s%s' % (es.name, mm.group(1), (' = ' + oneline(val)) if val else ''))
    info['copies'][es.name] = {'file': es.file, 'line': nc.count('\n', 0, m.start()) + 1, 'enumerators': len(out)}
    return 'enum %s { %s };\n' % (es.name, ', '.join(out))


class EnumSpec:
    def __init__(self, name, file, cxx_name=None):
        self.name, self.file, self.cxx_name = name, file, cxx_name or name


def assemble(unit, template_path, specs, groups=None):
    """Replace /*@FUNC name@*/, /*@COPY name@*/, /*@ENUM name@*/, /*@GROUP name@*/ placeholders in the template."""
    info = {'functions': {}, 'copies': {}}
    groups = groups or {}
    with open(template_path) as f:
        tpl = f.read()
    specs = list(specs) + [s for g in groups.values() for s in g]
    by_name = {s.name: s for s in specs}
    used = set()
    tname = os.path.basename(template_path)

    def render_any(s, info):
        if isinstance(s, FuncSpec):
            return render_func(s, info)
        if isinstance(s, EnumSpec):
            return render_enum(s, info)
        if isinstance(s, DeclSpec):
            return render_decl(s, info)
        return render_copy(s, info)

    def sub(m):
        kind, name = m.group(1), m.group(2)
        tline = tpl.count('\n', 0, m.end()) + 1
        if kind == 'GROUP':
            g = groups.get(name)
            if g is None:
                raise Broken('template %s references unknown group %s' % (template_path, name))
            r = ''
            for s in g:
                used.add(s.name)
                r += render_any(s, info)
        else:
            if name not in by_name:
                raise Broken('template %s references unknown spec %s' % (template_path, name))
            used.add(name)
            r = render_any(by_name[name], info)
        return r + '#line %d "%s"\n' % (tline, tname)
    text = re.sub(r'/\*@(FUNC|COPY|ENUM|GROUP) (\w+)@\*/', sub, tpl)
    missing = set(by_name) - used
    if missing:
        raise Broken('specs not used in template %s: %s' % (template_path, sorted(missing)))
    return '#line 1 "%s"\n' % tname + text, info


# ----------------------------------------------------------------------------
# CBMC driver
# ----------------------------------------------------------------------------

SAFETY_FLAGS = ['--bounds-check', '--pointer-check', '--signed-overflow-check', '--undefined-shift-check',
                '--div-by-zero-check', '--pointer-overflow-check']

_tool_version = None
import threading
SOLVER_SLOTS = threading.BoundedSemaphore(int(os.environ.get('VX_JOBS', '16')))


def tool_version():
    global _tool_version
    if _tool_version is None:
        try:
            _tool_version = subprocess.run(['cbmc', '--version'], capture_output=True, text=True).stdout.strip()
        except OSError as e:
            raise Broken('cbmc not runnable: %s' % e)
    return _tool_version


def run(cmd, timeout, mem_gb=None, cwd=None):
    t0 = time.time()
    pre = ''
    if mem_gb:
        pre = 'ulimit -v %d; ' % int(mem_gb * 1024 * 1024)
    sh = pre + 'exec ' + ' '.join(shquote(c) for c in cmd)
    try:
        p = subprocess.run(['bash', '-c', sh], capture_output=True, text=True, timeout=timeout, cwd=cwd)
        return p.returncode, p.stdout, p.stderr, time.time() - t0
    except subprocess.TimeoutExpired as e:
        return 'timeout', (e.stdout or b'').decode(errors='replace') if isinstance(e.stdout, bytes) else (e.stdout or ''), '', time.time() - t0


def shquote(s):
    if re.match(r'^[\w@%+=:,./-]+$', s):
        return s
    return "'" + s.replace("'", "'\"'\"'") + "'"


class Harness:
    """One proof harness = one CBMC query.
      name, entry (C function), enforce (function under contract or None),
      replace (callees replaced by their contracts), loop_contracts (bool),
      unwind (None or int -> --unwind N --unwinding-assertions),
      method LF|LC|WU|BD(n), props (property ids served), tier 'quick'|'thorough',
      defines, extra cbmc flags, solver ('' minisat default|'cadical'), timeout.
      pre_unwind: int K - loops of the enforced function that carry no loop contract (fixed-count inner loops) are unwound K times with unwinding
      assertions by a first goto-instrument pass, because --apply-loop-contracts rejects a contract-free loop nested in a loop under contract."""
    def __init__(self, name, entry, enforce=None, replace=(), loop_contracts=False, unwind=None,
                 method='LF', props=(), tier='quick', defines=(), flags=(), solver='', timeout=1500,
                 mem_gb=12, min_obligations=1, expect_classes=None, bounded=False, cover=False,
                 known=None, dfcc=True, object_bits=None, replay=None, note='', split=False, only=None, jobs=16, pre_unwind=None):
        self.__dict__.update(locals())
        del self.__dict__['self']


def parse_cbmc_json(out):
    """Parse --json-ui output; returns (results list, messages, verdict)."""
    try:
        data = json.loads(out)
    except Exception:
        # truncated (timeout) -> try to salvage
        return None, [], None
    results, msgs, verdict = [], [], None
    for item in data:
        if 'result' in item:
            results = item['result']
        if 'messageText' in item:
            msgs.append(item['messageText'])
        if 'cProverStatus' in item:
            verdict = item['cProverStatus']
    return results, msgs, verdict


def classify(name, desc):
    n = name
    if 'postcondition' in n:
        return 'postcondition'
    if 'precondition' in n:
        return 'precondition'
    if 'loop_invariant_base' in n:
        return 'loop_invariant_base'
    if 'loop_invariant_step' in n:
        return 'loop_invariant_step'
    if 'loop_decreases' in n or 'decreases' in desc:
        return 'loop_decreases'
    if 'loop_assigns' in n or 'assigns' in n:
        return 'assigns'
    if 'unwind' in n:
        return 'unwinding'
    if '.assertion.' in n:
        return 'assertion'
    if 'no-body' in n:
        return 'no-body'
    return 'safety'


TAG_RE = re.compile(r'\[(C\d\d)\]')


def eff_timeout(h):
    """The per-harness timeouts are hang guards written for an idle 16-core machine; they are scaled (default 3x, VX_TIMEOUT_SCALE) so that a loaded machine
    (other checks, compilers) does not turn a slow proof into CHECK-BROKEN.  A timeout is never a verdict either way."""
    try:
        k = float(os.environ.get('VX_TIMEOUT_SCALE', '3'))
    except ValueError:
        k = 3.0
    return int(h.timeout * max(k, 1.0))


def build_and_check(unit, h, ctext, info, outdir, nocache=False, trace_prop=None, extra_defines=()):
    """Serialises concurrent processes that work on the same harness files (two checks of different properties that share a unit, or a check and a
    seeded-mutant run): the files <outdir>/<harness>.{c,gb,i.gb} are rewritten by every run, and a process must not read them while another writes."""
    import fcntl
    os.makedirs(outdir, exist_ok=True)
    with open(os.path.join(outdir, h.name + ('.small' if extra_defines else '') + '.lock'), 'w') as lk:
        fcntl.flock(lk, fcntl.LOCK_EX)
        try:
            return _build_and_check(unit, h, ctext, info, outdir, nocache, trace_prop, extra_defines)
        finally:
            fcntl.flock(lk, fcntl.LOCK_UN)


def _build_and_check(unit, h, ctext, info, outdir, nocache=False, trace_prop=None, extra_defines=()):
    """Compile, instrument, solve one harness.  Returns a result dict."""
    os.makedirs(outdir, exist_ok=True)
    base = os.path.join(outdir, h.name + ('.small' if extra_defines else ''))
    cfile = base + '.c'
    with open(cfile, 'w') as f:
        f.write(ctext)
    defs = ['-DVX_CBMC', '-DVX_H_' + h.name.replace('-', '_')] + ['-D' + d for d in list(h.defines) + list(extra_defines)]
    cc = ['goto-cc', '--function', h.entry] + defs + ['-I', os.path.join(VERIF, 'spec'), '-I', os.path.join(VERIF, 'model'),
                                                      cfile, '-o', base + '.gb']
    gi = ['goto-instrument']
    if h.dfcc:
        gi += ['--dfcc', h.entry]
        if h.enforce:
            gi += ['--enforce-contract', h.enforce]
        for r in h.replace:
            gi += ['--replace-call-with-contract', r]
        if h.loop_contracts:
            gi += ['--apply-loop-contracts']
    gi += [base + '.gb', base + '.i.gb']
    cb = ['cbmc', '--json-ui'] + SAFETY_FLAGS + list(h.flags)
    if h.unwind is not None:
        cb += ['--unwind', str(h.unwind), '--unwinding-assertions']
    if h.object_bits:
        cb += ['--object-bits', str(h.object_bits)]
    if h.solver:
        cb += ['--sat-solver', h.solver]
    cb += [base + '.i.gb' if h.dfcc else base + '.gb']
    key = hashlib.sha256(('\0'.join([ctext, ' '.join(cc[3:-3]), ' '.join(gi[1:-2]), ' '.join(cb[1:-1]), tool_version()] + (['pre_unwind=%s' % h.pre_unwind] if getattr(h, 'pre_unwind', None) else [])
                                  + ['|'.join(c.get('desc', '') for f in sorted(info['functions']) for c in info['functions'][f].get('clauses', []))])).encode()).hexdigest()   # (clause descriptions carry the [Cxx] tags)
    cache_dir = os.path.join(OUT, 'cache')
    cpath = os.path.join(cache_dir, key + '.json')
    res = {'unit': unit, 'harness': h.name, 'method': h.method, 'props': list(h.props), 'enforce': h.enforce,
           'replace': list(h.replace), 'bounded': h.bounded, 'cmds': [' '.join(cc), ' '.join(gi), ' '.join(cb)],
           'cfile': cfile, 'functions': info['functions'], 'copies': info['copies'], 'key': key, 'note': h.note}
    if not nocache and not trace_prop and os.path.exists(cpath) and not os.environ.get('VERIF_NOCACHE'):
        try:
            with open(cpath) as f:
                cached = json.load(f)
            cached['cached'] = True
            cached['cfile'] = cfile
            return cached
        except Exception:
            pass
    t0 = time.time()
    rc, so, se, dt = run(cc, 300)
    if rc != 0:
        res.update(status='broken', reason='goto-cc failed: ' + (se or so)[-3000:])
        return res
    if h.dfcc and h.pre_unwind and h.enforce:
        rc, so, se, dt = run(['goto-instrument', '--show-loops', base + '.gb'], 300)
        keep = set(info['functions'].get(h.enforce, {}).get('loop_lines', []))
        ids = []
        for m in re.finditer(r'Loop (%s\.\d+):\s*\n\s*file \S+ line (\d+)' % re.escape(h.enforce), so):
            if int(m.group(2)) not in keep:
                ids.append(m.group(1))
        n_loops = len(re.findall(r'Loop %s\.\d+:' % re.escape(h.enforce), so))
        if n_loops - len(ids) != len(keep):
            res.update(status='broken', reason='pre-unwind: %d loops of %s, %d under contract expected, %d matched by line' % (n_loops, h.enforce, len(keep), n_loops - len(ids)))
            return res
        if ids:
            pu = ['goto-instrument', '--unwindset', ','.join('%s:%d' % (i, h.pre_unwind) for i in ids), '--unwinding-assertions', base + '.gb', base + '.u.gb']
            rc, so, se, dt = run(pu, 600, mem_gb=h.mem_gb)
            if rc != 0:
                res.update(status='broken', reason='goto-instrument (pre-unwind) failed: ' + (se or so)[-2000:])
                return res
            gi[-2] = base + '.u.gb'
            res['cmds'][1] = ' '.join(gi)
            res['cmds'].insert(1, ' '.join(pu))
    if h.dfcc:
        rc, so, se, dt = run(gi, 900, mem_gb=h.mem_gb)
        if rc != 0:
            res.update(status='broken', reason='goto-instrument failed: ' + (se or so)[-3000:])
            return res
        res['instrument_log'] = (so + se)[-2000:]
    if trace_prop:
        cb = cb[:-1] + ['--trace', '--property', trace_prop, cb[-1]]
    if (h.split or h.only) and not trace_prop:
        # one solver query per functional obligation (safety obligations in chunks): the obligations are the same,
        # each query is sliced to the cone of influence of its properties and the queries run in parallel
        rc, so, se, dt = run(['cbmc', '--json-ui', '--show-properties'] + cb[2:], 300, mem_gb=h.mem_gb)
        names = []
        desc_of = {}
        try:
            for item in json.loads(so):
                for pr in item.get('properties', []):
                    names.append((pr['name'], pr.get('class', '')))
                    desc_of[pr['name']] = pr.get('description', '')
        except Exception:
            res.update(status='broken', reason='cannot list properties: ' + (so[-500:] + se[-500:]))
            return res
        if h.only:
            names = [(n, c) for n, c in names if any(re.search(rx, n + ' ' + desc_of.get(n, '')) for rx in h.only)]
        func = [n for n, c in names if re.search(r'\.(assertion|postcondition|precondition|loop_invariant|loop_decreases)', n) and not n.startswith('__CPROVER')]
        rest = [n for n, c in names if n not in set(func)]
        chunks = [[n] for n in func] + [rest[i:i + 12] for i in range(0, len(rest), 12)]
        from concurrent.futures import ThreadPoolExecutor
        results, msgs, verdict, tot = [], [], 'success', 0.0

        def one(chunk):
            cmd = cb[:-1] + [x for n in chunk for x in ('--property', n)] + [cb[-1]]
            with SOLVER_SLOTS:
                return run(cmd, eff_timeout(h), mem_gb=h.mem_gb)
        with ThreadPoolExecutor(max(1, min(16, h.jobs))) as ex:
            outs = list(ex.map(one, chunks))
        for chunk, (rc, so, se, dt) in zip(chunks, outs):
            tot += dt
            if rc == 'timeout':
                res.update(status='broken', reason='cbmc timeout after %ds on %s' % (eff_timeout(h), chunk[:3]))
                return res
            r_, m_, v_ = parse_cbmc_json(so)
            if r_ is None or v_ is None or rc not in (0, 10):
                res.update(status='broken', reason='cbmc rc=%s on %s: %s' % (rc, chunk[:3], (so[-1000:] + se[-1000:])))
                return res
            want = set(chunk)
            results += [r for r in r_ if r.get('property') in want]
            msgs += m_
            if v_ != 'success':
                verdict = v_
        res['solver_s'] = round(tot, 2)
        res['queries'] = len(chunks)
        rc, so = 0, None
    else:
        with SOLVER_SLOTS:
            rc, so, se, dt = run(cb, eff_timeout(h), mem_gb=h.mem_gb)
        res['solver_s'] = round(dt, 2)
        if rc == 'timeout':
            res.update(status='broken', reason='cbmc timeout after %ds' % eff_timeout(h))
            return res
        results, msgs, verdict = parse_cbmc_json(so)
        if results is None or verdict is None or rc not in (0, 10):
            res.update(status='broken', reason='cbmc rc=%s: %s' % (rc, (so[-1500:] + se[-1500:])))
            return res
    obls = []
    for r in results:
        sl = r.get('sourceLocation', {})
        name, desc = r.get('property', ''), r.get('description', '')
        fn = sl.get('file', '')
        line = int(sl.get('line', 0) or 0)
        cls = classify(name, desc)
        # contract clauses: map back to the clause description (tags live there)
        if fn.startswith('contract/'):
            f = fn.split('/', 1)[1]
            cl = info['functions'].get(f, {}).get('clauses', [])
            if 1 <= line <= len(cl) and cl[line - 1]['desc']:
                desc = cl[line - 1]['desc'] + ' :: ' + desc
        tags = sorted(set(TAG_RE.findall(desc)))
        o = {'name': name, 'class': cls, 'desc': desc, 'file': fn, 'line': line,
             'function': sl.get('function', ''), 'status': r.get('status'), 'tags': tags}
        if trace_prop and r.get('trace'):
            o['trace'] = r['trace']
        obls.append(o)
    warn = [m for m in msgs if re.search(r'ignoring|no body for', m)]
    res['warnings'] = warn[:20]
    res['obligations'] = obls
    res['verdict'] = verdict
    res['status'] = 'ok'
    res['wall_s'] = round(time.time() - t0, 2)
    if not trace_prop:
        os.makedirs(cache_dir, exist_ok=True)
        tmp = cpath + '.%d.tmp' % os.getpid()
        with open(tmp, 'w') as f:
            json.dump(res, f)
        os.replace(tmp, cpath)
    return res


def site_check(unit, sc):
    """A syntactic fact about /repo that a contract's precondition or a property relies on
    (e.g. 'every read_int64 call site is inside case negative_integer').  sc = {file, pattern, count, what, props}.
    A miscount is CHECK-BROKEN (exit 2): a proof about a function that is no longer called that way proves nothing."""
    raw, nc, mask = header_nc(sc['file'])
    # 'outside': [(from_regex, to_regex)] -- regions (each must exist exactly once) that are under contract; the pattern is counted in the rest of the file
    for a, b in sc.get('outside', ()):
        ma = list(re.finditer(a, nc)); mb = list(re.finditer(b, nc))
        if len(ma) != 1 or len(mb) != 1 or mb[0].start() < ma[0].start():
            raise Broken('SITE-CHECK %s: %s: region %r .. %r not found exactly once in %s' % (unit, sc['what'], a, b, sc['file']))
        nc = nc[:ma[0].start()] + nc[mb[0].start():]
    n = len(re.findall(sc['pattern'], nc, flags=re.S))
    lo, hi = (sc['count'], sc['count']) if isinstance(sc['count'], int) else sc['count']
    if n < lo or n > hi:
        raise Broken('SITE-CHECK %s: %s: pattern %r matched %d times in %s, expected %s' % (unit, sc['what'], sc['pattern'], n, sc['file'], sc['count']))
    return {'unit': unit, 'what': sc['what'], 'file': sc['file'], 'matches': n}
