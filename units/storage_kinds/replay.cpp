// replay for unit storage_kinds: one sample value of every storage kind (null, empty object, bool, int64, uint64, half, double, short and long string, byte
// string, array, object); for every pair: copy construction and copy assignment give an equal and independent value, swap exchanges the two, self-swap and
// self-assignment change nothing.  Built with AddressSanitizer, so a shared or double-freed heap block is reported as well.
#include <jsoncons/json.hpp>
#include "replay_util.hpp"
using namespace jsoncons;
template <class J> static std::vector<J> samples()
{
    std::vector<J> v; const uint8_t raw[] = {1, 2, 3};
    v.push_back(J::null()); v.push_back(J(json_object_arg)); v.push_back(J(true)); v.push_back(J(int64_t(-5))); v.push_back(J(uint64_t(18446744073709551615ULL))); v.push_back(J(half_arg, 0x3c00)); v.push_back(J(1.5));
    v.push_back(J("short")); v.push_back(J(std::string(40, 'L'))); v.push_back(J(byte_string_arg, byte_string_view(raw, 3))); v.push_back(J::parse("[1,[2,3],{\"k\":\"" + std::string(30, 'x') + "\"}]")); v.push_back(J::parse("{\"a\":[1,2],\"b\":{\"c\":\"" + std::string(30, 'y') + "\"}}"));
    return v;
}
template <class J> static void run(const char* name, int& bad, int& total, std::string& first)
{
    auto s = samples<J>();
    auto fail = [&](const std::string& m) { if (!bad) first = std::string(name) + ": " + m; ++bad; };
    for (size_t i = 0; i < s.size(); ++i) for (size_t j = 0; j < s.size(); ++j) {
        ++total; J a = s[i], b = s[j];
        if (!(a == s[i]) || !(b == s[j])) fail("copy of sample " + std::to_string(i) + " differs from its source");
        J c(a); if (c.is_array()) c.push_back(99); else if (c.is_object() && c.storage_kind() == json_storage_kind::object) c.insert_or_assign("zz", 1);
        if (!(a == s[i])) fail("changing a copy of sample " + std::to_string(i) + " changed the source");
        a.swap(b); if (!(a == s[j]) || !(b == s[i])) fail("swap of samples " + std::to_string(i) + " and " + std::to_string(j) + " gives " + a.to_string() + " / " + b.to_string());
        a.swap(a); if (!(a == s[j])) fail("self-swap changed sample " + std::to_string(j));
        J d = s[i]; d = s[j]; if (!(d == s[j])) fail("assignment of sample " + std::to_string(j) + " over sample " + std::to_string(i) + " gives " + d.to_string());
        J& dr = d; d = dr; if (!(d == s[j])) fail("self-assignment changed sample " + std::to_string(j));
        J e(std::move(a)); if (!(e == s[j])) fail("move construction of sample " + std::to_string(j) + " gives " + e.to_string());
    }
}
int main(int argc, char** argv)
{
    if (argc < 3) return 2;
    int bad = 0, total = 0; std::string first;
    run<json>("json", bad, total, first); run<ojson>("ojson", bad, total, first);
    if (bad) VX_REPRO(bad << " failures over " << total << " kind pairs, first: " << first);
    VX_NOREPRO("copy, assignment, move and swap behave as value operations for all " << total << " pairs of storage kinds");
}
