/* unit jmespath_ops (C13): truthiness and the logical and comparison operators of JMESPath (specification, "Or / And / Not expressions" and "Comparison
 * operators"): the false-like values are the empty list, the empty object, the empty string, false and null; "a || b" is a if a is true-like, else b;
 * "a && b" is a if a is false-like, else b; "!a" is true iff a is false-like; ordering comparisons are defined for numbers only and are null otherwise.
 * A JSON value is abstracted to its kind, whether it is empty, and (for booleans) its value; the comparison of two values is basic_json's (unit cmp) and
 * enters as an oracle. */
#include "vx_common.h"
enum { VK_NULL = 0, VK_BOOL, VK_NUMBER, VK_STRING, VK_ARRAY, VK_OBJECT };
struct jval { uint8_t kind; bool empty, bval; };
static struct jval vx_lhs, vx_rhs; static int vx_cmp;   /* sign of compare(lhs, rhs) */
enum { R_NONE = 0, R_TRUE, R_FALSE, R_NULL, R_LHS, R_RHS_EVAL };
static int vx_result; static unsigned vx_rhs_evals;
/*@FUNC is_false@*/
/*@GROUP ops@*/
#ifdef VX_CBMC
static void setup(void) { vx_lhs.kind = nondet_u8(); vx_lhs.empty = nondet_bool(); vx_lhs.bval = nondet_bool(); vx_rhs.kind = nondet_u8(); vx_rhs.empty = nondet_bool(); vx_rhs.bval = nondet_bool();
    __CPROVER_assume(vx_lhs.kind <= VK_OBJECT && vx_rhs.kind <= VK_OBJECT); vx_cmp = nondet_int(); __CPROVER_assume(vx_cmp >= -1 && vx_cmp <= 1); vx_result = R_NONE; vx_rhs_evals = 0; }
void h_is_false(void) { setup(); bool r = is_false(&vx_lhs); (void)r; }
void h_not(void) { setup(); op_not(); }
void h_or(void) { setup(); op_or(); }
void h_and(void) { setup(); op_and(); }
void h_eq(void) { setup(); op_eq(); } void h_ne(void) { setup(); op_ne(); } void h_lt(void) { setup(); op_lt(); } void h_lte(void) { setup(); op_lte(); } void h_gt(void) { setup(); op_gt(); } void h_gte(void) { setup(); op_gte(); }
#endif
