#!/bin/sh
# usage: tr.sh <unit> <harness> <property> <var-regex>   -- debugging aid: print the last assignments of selected variables in a counterexample trace
cd /verif/out/units/$1 && cbmc --trace --property $3 $2.i.gb 2>&1 | grep -E "^  ($4)=" | sed 's/ (.*//' | tail -${5:-60} | tr '\n' ' '; echo
