// replay for unit bigint_add: x += y for x of 1..5 limbs (limb 0 near the top of its range, then k limbs of all ones, then a limb that absorbs the carry) and
// for unsigned and signed 64-bit y (including INT64_MIN with a negative x), against limb-vector addition done independently; built with UBSan.
#include <jsoncons/json.hpp>
#include <jsoncons/utility/bigint.hpp>
#include "replay_util.hpp"
using jsoncons::bigint;
static bigint from_limbs(const std::vector<uint64_t>& l) { bigint r(0); for (size_t i = l.size(); i-- > 0; ) { r *= bigint((uint64_t)1 << 32); r *= bigint((uint64_t)1 << 32); r += bigint(l[i]); } return r; }
static std::string hex(std::vector<uint64_t> l) { while (l.size() > 1 && l.back() == 0) l.pop_back(); std::string s; char b[20]; for (size_t i = l.size(); i-- > 0; ) { snprintf(b, sizeof b, i + 1 == l.size() ? "%llX" : "%016llX", (unsigned long long)l[i]); s += b; } return s; }
static std::string norm(std::string s) { bool neg = !s.empty() && s[0] == '-'; if (neg) s = s.substr(1); for (auto& c : s) c = (char)toupper(c); size_t p = s.find_first_not_of('0'); s = p == std::string::npos ? "0" : s.substr(p); return (neg && s != "0" ? "-" : "") + s; }
int main(int argc, char** argv)
{
    if (argc < 3) return 2;
    vx_replay_inputs in; if (!in.load(argv[2])) return 2;
    int bad = 0, total = 0; std::string first;
    std::vector<uint64_t> a0s = {0, 1, UINT64_MAX, UINT64_MAX - 1, 0x8000000000000000ull, in.u64("vx_a0", 5)}; std::vector<uint64_t> ys = {0, 1, 2, UINT64_MAX, 0x8000000000000000ull, 0x7fffffffffffffffull, in.u64("y", 3)};
    for (uint64_t a0 : a0s) for (int ones = 0; ones <= 3; ++ones) for (int top = 0; top < 3; ++top) for (uint64_t y : ys) {
        std::vector<uint64_t> l = {a0}; for (int k = 0; k < ones; ++k) l.push_back(UINT64_MAX); if (top == 1) l.push_back(7); if (top == 2) l.push_back(UINT64_MAX - 1);
        std::vector<uint64_t> r = l; r.push_back(0); unsigned __int128 c = y; for (size_t i = 0; i < r.size(); ++i) { unsigned __int128 t = (unsigned __int128)r[i] + c; r[i] = (uint64_t)t; c = t >> 64; }
        { ++total; bigint x = from_limbs(l); x += y; if (norm(x.to_string_hex()) != hex(r)) { if (!bad) first = "0x" + hex(l) + " += " + std::to_string(y) + " (unsigned) gives 0x" + norm(x.to_string_hex()); ++bad; } }
        if (y <= (uint64_t)INT64_MAX) { ++total; bigint x = from_limbs(l); x += (int64_t)y; if (norm(x.to_string_hex()) != hex(r)) { if (!bad) first = "0x" + hex(l) + " += " + std::to_string(y) + " (signed) gives 0x" + norm(x.to_string_hex()); ++bad; } }
        { ++total; int64_t sy = (y == 0x8000000000000000ull) ? INT64_MIN : -(int64_t)(y & 0x7fffffffffffffffull); uint64_t mag = (uint64_t)0 - (uint64_t)sy;      // negative x += negative y: magnitudes add
          std::vector<uint64_t> r2 = l; r2.push_back(0); unsigned __int128 c2 = mag; for (size_t i = 0; i < r2.size(); ++i) { unsigned __int128 t = (unsigned __int128)r2[i] + c2; r2[i] = (uint64_t)t; c2 = t >> 64; }
          bigint x = -from_limbs(l); bool zero = hex(l) == "0"; if (!zero && sy < 0) { x += sy; std::string want = "-" + hex(r2); if (norm(x.to_string_hex()) != want) { if (!bad) first = "-0x" + hex(l) + " += " + std::to_string(sy) + " gives " + norm(x.to_string_hex()); ++bad; } } }
    }
    if (bad) VX_REPRO(bad << " of " << total << " additions differ from limb-vector addition, first: " << first);
    VX_NOREPRO("all " << total << " additions agree with limb-vector addition, without sanitizer reports");
}
