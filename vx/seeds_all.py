#!/usr/bin/env python3
# run every seeded change in /verif/seeded against the check of its property (restricted to the units named in SEEDS for speed; the full check gives
# the same verdict) and write out/seeds_summary.json; debugging/evaluation aid, not part of any registered check
import os, sys, json, subprocess, re
VERIF = os.path.dirname(os.path.dirname(os.path.abspath(__file__)))
SEEDS = {
    'C01-escape-ffff': ('C01', 'json_escape'), 'C02-exp2-saved-state': ('C02', 'json_number'), 'C02-dup-key-unstable-sort': ('C02', 'object_dedup'),
    'C03-surrogate-pair2-state': ('C03', 'json_string'), 'C04-grisu-boundary': ('C04', 'grisu'), 'C05-cbor-stringref-bound': ('C05', 'cbor_item'),
    'C06-strref-threshold': ('C06', 'cbor_strref'), 'C06-bytestring-strref-index': ('C06', 'cbor_strref'), 'C07-msgpack-fixmap15': ('C07', 'msgpack_read'),
    'C08-cbor-bignum-head': ('C08', 'cbor_head'), 'C08-ubjson-length-int16': ('C08', 'ubjson'), 'C09-ojson-bloom': ('C09', 'ojson_bloom,cmp'),
    'C10-flatten-destroy': ('C10', 'json_flatten'), 'C12-slice-neg-step': ('C12', 'slices'), 'C13-slice-neg-start': ('C13', 'slices'), 'C14-leading-zeros-00': ('C14', 'jsonpointer'),
    'C18-toon-tabular-backslash': ('C18', 'toon,csv_quote'),
    'C12-jsonpath-parser-slice-reset': ('C12', 'jsonpath_slice_parse'), 'C01-grisu-pow2-lower-boundary': ('C01', 'grisu'), 'C18-csv-minimal-quote-linebreak': ('C18', 'csv_quote'),
    'C02-wchar-is-digit-truncation': ('C02', 'digit_classes'), 'C14-add-dash-prefix': ('C14', 'jsonpointer'), 'C07-half-neg-infinity': ('C07', 'half'),
    'C09-try-emplace-hint-skip': ('C09', 'sorted_object_insert'),
    'C13-jmespath-step-slice-reset': ('C13', 'jmespath_slice_parse'),
    'C16-merge-nonobject-member-asis': ('C16', 'mergepatch'),
    'C15-move-definite-path-early': ('C15', 'jsonpatch'),
    'C06-write-string-textmap-size': ('C06', 'cbor_strref'),
    'C08-cbor-bytestring-strref-gt': ('C08', 'cbor_strref'), 'C03-escape-u8-saved-state': ('C03', 'json_string'), 'C10-source-reader-unread': ('C10', 'source_reader'),
    'C16-from-diff-empty-object-target': ('C16', 'mergepatch'), 'C15-replace-moves-before-validation': ('C15', 'jsonpatch'), 'C09-compare-double-uint64-cast': ('C09', 'cmp'),
    'C07-cbor-indefinite-text-buffer-clear': ('C07', 'cbor_strings'), 'C14-remove-signed-index': ('C14', 'jsonpointer'),
    'C13-sort-by-unstable': ('C13', 'jmespath_sort'),
    'C18-toon-is-number-exponent-plus': ('C18', 'toon_number'),
    'C06-cbor-bignum-head-24': ('C06', 'cbor_head'), 'C04-bigint-add-carry-ripple': ('C04', 'bigint_add'), 'C05-mdarray-size-div-by-zero': ('C05', 'mdarray_size'),
    'C01-begin-array-depth-off-by-one': ('C01', 'json_depth'), 'C12-gte-string-operator': ('C12', 'jsonpath_ops'),
    'C03-exp2-saved-exp1': ('C03', 'json_number'), 'C02-surrogate-pair2-saved-pair1': ('C02', 'json_string'), 'C07-ubjson-int16-short-read': ('C07', 'ubjson_read'), 'C09-is-integer-uint64-sign': ('C09', 'is_integer'),
    'C10-cbor-bigdec-depth-leak': ('C10', 'cbor_bigdec'), 'C08-cbor-bigdec-scale-assign': ('C08', 'cbor_bigdec'),
    'C05-csv-subfields-ignored-empty-last': ('C05', 'csv_parse'),
    'C18-mcolumns-replay-uint64-as-int64': ('C18', 'csv_columns'), 'C05-utf8-to-codepoint-end-off-by-one': ('C05', 'utf8,json_escape'),
    'C03-fals-cursor-mode': ('C03', 'json_literals'), 'C04-grisu-boundary-shift': ('C04', 'grisu'), 'C10-source-reader-claimed-length': ('C10', 'source_reader'),
}
only = sys.argv[1:]
out = {}
sp = os.path.join(VERIF, 'out', 'seeds_summary.json')
if os.path.exists(sp):
    out = json.load(open(sp))
for name, (prop, units) in SEEDS.items():
    if only and name not in only:
        continue
    if not os.path.isdir(os.path.join(VERIF, 'seeded', name)):
        continue
    cmd = [os.path.join(VERIF, 'vx', 'seed_run.sh'), name, prop] + (['--units', units] if units else []) + ['-j', '12']
    p = subprocess.run(cmd, capture_output=True, text=True)
    log = open(os.path.join(VERIF, 'out', 'seedrun-%s-%s.log' % (name, prop))).read()
    vio = re.findall(r'^VIOLATION property=\S+ replay=(\S+)( no-failing-input-found)?', log, re.M)
    obl = re.findall(r'^  failed obligation: (\S+) (\S+) \[(\w+)\] \S+ (.*)$', log, re.M)
    m = re.search(r'-> exit (\d)', log)
    out[name] = {'property': prop, 'units': units, 'exit': int(m.group(1)) if m else None, 'violations': len(vio),
                 'reproduced_on_real_code': any(not v[1] for v in vio), 'failed_obligations': [{'harness': o[0], 'id': o[1], 'class': o[2], 'text': o[3][:220]} for o in obl][:6],
                 'broken': re.findall(r'^CHECK-BROKEN.*$', log, re.M)[:3]}
    print(name, out[name]['exit'], out[name]['violations'], 'reproduced' if out[name]['reproduced_on_real_code'] else '', flush=True)
    json.dump(out, open(sp, 'w'), indent=1)
