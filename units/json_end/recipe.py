# U-PEND (DESIGN 6): end_integer_value / end_negative_value / end_positive_value / end_fraction_value of basic_json_parser
# dec_to_integer is used through its contracts (unit integers); decstr_to_double (std::from_chars / strtod) is opaque.
from core import FuncSpec, CopySpec, EnumSpec, DeclSpec, Harness, INF
import units as _u
_int = _u.load_unit('integers')
J = 'include/jsoncons/json_parser.hpp'
AL = {'more_': '(self->more_)', 'cursor_mode_': '(self->cursor_mode_)', 'lossless_bignum_': '(self->lossless_bignum_)', 'lossless_number_': '(self->lossless_number_)'}
RULES = [
    (r'int64_t val;', 'int64_t val = 0;', 0, 1), (r'uint64_t val;', 'uint64_t val = 0;', 0, 1),
    (r'auto result = jsoncons::dec_to_integer\(buffer_\.data\(\), buffer_\.length\(\), val\);', 'struct to_number_result result = VX_DEC(vx_text, vx_text_len, &val);', 0, 1),
    (r'auto result = jsoncons::decstr_to_double\(&buffer_\[0\], buffer_\.length\(\), d\);', 'struct to_number_result result = vx_decstr_to_double(&d);', 0, 1),
    (r'result = jsoncons::decstr_to_double\(&buffer_\[0\], buffer_\.length\(\), d\);', 'result = vx_decstr_to_double(&d);', 0, 1),
    (r'if \(result\)', 'if (result.ec == VX_ERRC_ok)', 0, 1),
    (r'JSONCONS_LIKELY\(result\)', '(result.ec == VX_ERRC_ok)', 0, 1),
    (r'result\.ec == std::errc::result_out_of_range', 'result.ec == VX_ERRC_result_out_of_range', 0, 1),
    (r'double d\{0\};', 'double d = 0;', 0, 1),
    (r'visitor\.int64_value\(val, semantic_tag::none, \*this, ec\);', 'vx_ev_int64(val, ec_p);', 0, 1),
    (r'visitor\.uint64_value\(val, semantic_tag::none, \*this, ec\);', 'vx_ev_uint64(val, ec_p);', 0, 1),
    (r'visitor\.string_value\(buffer_, semantic_tag::(\w+), \*this, ec\);', r'vx_ev_text(semantic_tag_\1, ec_p);', 0, 2),
    (r'visitor\.double_value\(d, semantic_tag(::none|\{\}), \*this, ec\);', 'vx_ev_double(d, ec_p);', 0, 3),
    (r'json_errc::(\w+)', r'json_errc_\1', 0, 2),
    (r'after_value\(ec\);', 'vx_after_value();', 0, 1),
    (r'(?<![.\w>])\bec\b(?!_)', '(*ec_p)', 0, 40),   # the error_code reference parameter (an alias macro would also hit result.ec)
]
def int_contract(neg):
    rng = '(vx_h <= ((spec_u128)1 << 63))' if neg else '(vx_h <= (spec_u128)UINT64_MAX)'
    val = '((uint64_t)vx_ev_i == (uint64_t)0 - (uint64_t)vx_h && vx_ev_kind == VX_EV_INT64)' if neg else '(vx_ev_u == (uint64_t)vx_h && vx_ev_kind == VX_EV_UINT64)'
    return [
        # the scratch buffer holds a complete integer literal (established by parse_number: unit json_number): [-] 0 | [1-9][0-9]*
        ('requires', '*ec_p == 0 && vx_events == 0 && vx_ev_kind == VX_EV_NONE && vx_h == 0 && vx_h_i == 0 && vx_len >= 1 && vx_len <= SPEC_INT_MAXLEN - 1 && vx_k == vx_len && (vx_len == 1 || vx_s[0] != \'0\')'),
        ('requires', 'vx_text_len == vx_len + %d && vx_s == vx_text + %d && vx_neg == %d%s' % (neg, neg, neg, " && vx_text[0] == '-'" if neg else '')),
        ('assigns', '*ec_p, self->more_, vx_events, vx_ev_kind, vx_ev_i, vx_ev_u, vx_ev_d, vx_ev_tag, vx_h, vx_h_i, vx_after'),
        ('ensures', '[C04][C02] a literal within the native range is delivered as exactly one %s event carrying exactly its mathematical value' % ('int64' if neg else 'uint64'),
         '(vx_len <= 20 && vx_h_i == vx_len && %s) ==> (vx_events == 1 && %s)' % (rng, val)),
        ('ensures', '[C04][C02] a literal outside the native range with lossless_bignum: exactly one string event tagged bigint whose text is the scratch buffer verbatim (digit for digit); never an integer event',
         '((vx_len >= 21 || (vx_h_i == vx_len && !%s)) && self->lossless_bignum_) ==> (vx_events == 1 && vx_ev_kind == VX_EV_TEXT && vx_ev_tag == semantic_tag_bigint)' % rng),
        ('ensures', '[C04][C02] a literal outside the native range without lossless_bignum is converted by decstr_to_double (one double event) - never wrapped into an integer',
         '((vx_len >= 21 || (vx_h_i == vx_len && !%s)) && !self->lossless_bignum_) ==> (vx_ev_kind != VX_EV_INT64 && vx_ev_kind != VX_EV_UINT64 && ((vx_events == 1 && vx_ev_kind == VX_EV_DOUBLE) || (vx_events == 0 && *ec_p == json_errc_invalid_number)))' % rng),
        ('ensures', '[C02] never two events, never silently nothing', 'vx_events <= 1 && (vx_events == 0 ==> *ec_p != 0)'),
    ]
FRAC_CONTRACT = [
    ('requires', '*ec_p == 0 && vx_events == 0 && vx_ev_kind == VX_EV_NONE'),
    ('assigns', '*ec_p, self->more_, vx_events, vx_ev_kind, vx_ev_d, vx_ev_tag, vx_after'),
    ('ensures', '[C04][C01] lossless_number: the literal is delivered as its exact text, tagged bigdec', 'self->lossless_number_ ==> (vx_events == 1 && vx_ev_kind == VX_EV_TEXT && vx_ev_tag == semantic_tag_bigdec)'),
    ('ensures', '[C04] otherwise a decimal in the double range is delivered as one double event (value by decstr_to_double)', '(!self->lossless_number_ && vx_dbl_result == VX_ERRC_ok) ==> (vx_events == 1 && vx_ev_kind == VX_EV_DOUBLE)'),
    ('ensures', '[C04] out of the double range: exact text (bigdec) with lossless_bignum, otherwise the overflowed double', '(!self->lossless_number_ && vx_dbl_result == VX_ERRC_result_out_of_range) ==> (vx_events == 1 && (self->lossless_bignum_ ? (vx_ev_kind == VX_EV_TEXT && vx_ev_tag == semantic_tag_bigdec) : vx_ev_kind == VX_EV_DOUBLE))'),
    ('ensures', '[C02] never two events, never silently nothing', 'vx_events <= 1 && (vx_events == 0 ==> *ec_p != 0)'),
]
def F(name, contract, extra=()):
    return FuncSpec(name, J, r'void %s\(basic_json_visitor<char_type>& visitor, std::error_code& ec\)' % name, count=1,
                    csig='void %s(struct json_parser* self, int* ec_p)' % name, contract=contract, aliases=AL, rules=list(extra) + RULES)
DISPATCH_CONTRACT = [
    ('requires', 'vx_text_len >= 1 && vx_neg_calls == 0 && vx_pos_calls == 0'),
    ('assigns', 'vx_neg_calls, vx_pos_calls'),
    ('ensures', '[C04][C02] a literal starting with minus goes to end_negative_value, any other to end_positive_value',
     '(vx_text[0] == \'-\') ? (vx_neg_calls == 1 && vx_pos_calls == 0) : (vx_neg_calls == 0 && vx_pos_calls == 1)'),
]
SPECS = [
    EnumSpec('json_errc', 'include/jsoncons/json_error.hpp'), EnumSpec('semantic_tag', 'include/jsoncons/semantic_tag.hpp'),
    DeclSpec('dec_u64_decl', 'dec_to_integer_u64', 'struct to_number_result dec_to_integer_u64(const char* s, size_t length, uint64_t* value_p)', _int.DEC_U64, 'integers'),
    DeclSpec('dec_i64_decl', 'dec_to_integer_i64', 'struct to_number_result dec_to_integer_i64(const char* s, size_t length, int64_t* value_p)', _int.DEC_I64, 'integers'),
    F('end_positive_value', int_contract(0), [(r'VX_DEC_PLACEHOLDER', '', 0)]),
    F('end_negative_value', int_contract(1)),
    F('end_fraction_value', FRAC_CONTRACT),
    FuncSpec('end_integer_value', J, r'void end_integer_value\(basic_json_visitor<char_type>& visitor, std::error_code& ec\)', count=1,
             csig='void end_integer_value(void)', contract=DISPATCH_CONTRACT,
             rules=[(r'buffer_\[0\]', 'vx_text[0]', 1), (r'end_negative_value\(visitor, ec\);', 'vx_neg_calls++;', 1), (r'end_positive_value\(visitor, ec\);', 'vx_pos_calls++;', 1)]),
]
# VX_DEC selects the callee per function (macro defined before each function in the template)
for s_ in SPECS:
    if getattr(s_, 'name', '') == 'end_positive_value':
        s_.rules = [(a if 'VX_DEC(' not in b else a, b.replace('VX_DEC(', 'dec_to_integer_u64('), *c) for (a, b, *c) in s_.rules if a != r'VX_DEC_PLACEHOLDER']
    if getattr(s_, 'name', '') == 'end_negative_value':
        s_.rules = [(a, b.replace('VX_DEC(', 'dec_to_integer_i64('), *c) for (a, b, *c) in s_.rules]
HARNESSES = [
    Harness('end_positive_value', 'h_end_positive', enforce='end_positive_value', replace=['dec_to_integer_u64'], method='WU(26)', unwind=26, props=['C04', 'C02']),
    Harness('end_negative_value', 'h_end_negative', enforce='end_negative_value', replace=['dec_to_integer_i64'], method='WU(26)', unwind=26, props=['C04', 'C02']),
    Harness('end_fraction_value', 'h_end_fraction', enforce='end_fraction_value', method='LF', props=['C04', 'C01']),
    Harness('end_integer_value', 'h_end_integer', enforce='end_integer_value', method='LF', props=['C04', 'C02']),
]
