/* unit object_dedup: how sorted_json_object builds an object from the members of a JSON text (first of duplicate names wins) */
#include "vx_common.h"
#include <stdlib.h>
/* member names are abstracted to integers that order them (every finite set of strings embeds order-preservingly into the integers) */
struct vx_name { int id; };
static int vx_name_compare(struct vx_name a, struct vx_name b) { return a.id < b.id ? -1 : a.id > b.id ? 1 : 0; }
struct index_key_value { struct vx_name name; int64_t index; };
/*@FUNC compare@*/
static struct index_key_value* vx_items; static size_t vx_count, vx_w;
static bool vx_emitted_w; static size_t vx_emits, vx_last_emit;
static bool vx_order_bad;
static void VX_EMIT(size_t i)
{
    if (vx_emits > 0 && i <= vx_last_emit) vx_order_bad = true;
    if (i == vx_w) vx_emitted_w = true;
    vx_last_emit = i; vx_emits++;
}
/*@FUNC uninitialized_init@*/
#ifdef VX_CBMC
void h_compare(void)
{
    struct index_key_value a, b;
    compare(&a, &b);
}
void h_init(void)
{
    vx_count = nondet_size();
#ifdef VX_SMALL
    __CPROVER_assume(vx_count <= 6);
#endif
    __CPROVER_assume(vx_count <= 1000000);
    vx_items = malloc((vx_count ? vx_count : 1) * sizeof(struct index_key_value)); __CPROVER_assume(vx_items != 0);
    vx_w = nondet_size(); vx_emitted_w = false; vx_emits = 0; vx_order_bad = false;
    uninitialized_init(vx_items, vx_count);
}
/* lemma: in a sequence sorted by the real compare (std::sort's postcondition: no adjacent pair is out of order), of two adjacent members with the
 * same name the one that came first in the text precedes; hence the first member of each run of equal names is the first occurrence in the text */
void h_first_wins(void)
{
    struct index_key_value a, b;
    __CPROVER_assume(a.index != b.index);            /* positions in the text are distinct */
    __CPROVER_assume(!compare(&b, &a));              /* a stands directly before b after sorting */
    __CPROVER_assert(vx_name_compare(a.name, b.name) <= 0, "[C02] after sorting, names are in non-decreasing order (equal names are adjacent)");
    __CPROVER_assert(vx_name_compare(a.name, b.name) != 0 || a.index < b.index, "[C02] after sorting, of two members with the same name the one that came first in the text precedes: the first duplicate wins");
}
#endif
