/* S-SLICE: RFC 9535 section 2.3.4.2.2 (Normalize, Bounds) -- the same definition as Python slices and the
 * JMESPath slice expression -- over 128-bit integers so that no intermediate can overflow.
 * Not derived from jsoncons. */
#ifndef SPEC_SLICE_H
#define SPEC_SLICE_H
#include <stdint.h>
typedef __int128 spec_i128;
static inline spec_i128 spec_slice_min(spec_i128 a, spec_i128 b) { return a < b ? a : b; }
static inline spec_i128 spec_slice_max(spec_i128 a, spec_i128 b) { return a > b ? a : b; }
/* FUNCTION Normalize(i, len): IF i >= 0 THEN RETURN i ELSE RETURN len + i */
static inline spec_i128 spec_slice_normalize(spec_i128 i, spec_i128 len) { return i >= 0 ? i : len + i; }
struct spec_slice_bounds { spec_i128 lower, upper; };
/* defaults: step >= 0: start = 0, end = len; step < 0: start = len - 1, end = -len - 1 */
static inline struct spec_slice_bounds spec_slice(int has_start, int64_t start, int has_end, int64_t end, int64_t step, uint64_t size)
{
    spec_i128 len = (spec_i128)size;
    spec_i128 s = has_start ? (spec_i128)start : (step >= 0 ? 0 : len - 1);
    spec_i128 e = has_end ? (spec_i128)end : (step >= 0 ? len : -len - 1);
    spec_i128 n_start = spec_slice_normalize(s, len), n_end = spec_slice_normalize(e, len);
    struct spec_slice_bounds b;
    if (step >= 0) {
        b.lower = spec_slice_min(spec_slice_max(n_start, 0), len);
        b.upper = spec_slice_min(spec_slice_max(n_end, 0), len);
    } else {
        b.upper = spec_slice_min(spec_slice_max(n_start, -1), len - 1);
        b.lower = spec_slice_min(spec_slice_max(n_end, -1), len - 1);
    }
    return b;
}
/* step > 0: i = lower; WHILE i < upper: select i; i += step.   step < 0: i = upper; WHILE lower < i: select i; i += step.
 * step == 0: no elements. */
#endif
