/* unit mdarray_size: calculate_mdarray_size, one arbitrary iteration of the product loop */
#include "vx_common.h"
static size_t vx_len, vx_i, vx_e, vx_n_in, vx_n_after, vx_ret_val; static unsigned vx_rets, vx_steps; static bool vx_ret_ok;
static void vx_return(bool ok, size_t v) { vx_rets++; vx_ret_ok = ok; vx_ret_val = v; }
/*@FUNC calculate_mdarray_size@*/
#ifdef VX_CBMC
void h_calculate_mdarray_size(void) { vx_len = nondet_size(); vx_i = nondet_size(); vx_e = nondet_size(); vx_n_in = nondet_size(); vx_rets = 0; vx_steps = 0; calculate_mdarray_size(); }
#endif
