// replay for unit decode_reserve: arrays and maps that announce 2^31-1, 2^32-1 and 2^60-1 elements and supply one, in CBOR and MessagePack, decoded into
// std::vector<double>, std::vector<int>, std::vector<std::string>, std::map<std::string,int> and json: each must end with a jsoncons error
// (or a value) - no std::bad_alloc / std::length_error, no allocator report (built with ASan: a reservation of 2^60 elements aborts the program).
#include <jsoncons/json.hpp>
#include <jsoncons_ext/cbor/cbor.hpp>
#include <jsoncons_ext/msgpack/msgpack.hpp>
#include "replay_util.hpp"

#include <map>
using namespace jsoncons;
static int bad = 0, total = 0; static std::string first;
template <class T, class F> static void tryit(const std::string& what, F f) { ++total; try { T v = f(); (void)v; } catch (const jsoncons::json_exception&) {} catch (const std::exception& e) { if (!bad) first = what + ": " + e.what(); ++bad; } }
int main(int argc, char** argv)
{
    if (argc < 3) return 2;
    std::vector<std::vector<uint8_t>> cb = {{0x9a, 0x7f, 0xff, 0xff, 0xff, 0x01}, {0x9a, 0xff, 0xff, 0xff, 0xff, 0x01}, {0x9b, 0x0f, 0xff, 0xff, 0xff, 0xff, 0xff, 0xff, 0xff, 0x01}, {0x9b, 0x0f, 0xff, 0xff, 0xff, 0xff, 0xff, 0xff, 0xff, 0x61, 0x61}};
    std::vector<std::vector<uint8_t>> mp = {{0xdd, 0x7f, 0xff, 0xff, 0xff, 0x01}, {0xdd, 0xff, 0xff, 0xff, 0xff, 0x01}, {0xdd, 0xff, 0xff, 0xff, 0xff, 0xa1, 0x61}};
    for (auto& b : cb) { tryit<std::vector<double>>("cbor vector<double>", [&] { return cbor::decode_cbor<std::vector<double>>(b); }); tryit<std::vector<int>>("cbor vector<int>", [&] { return cbor::decode_cbor<std::vector<int>>(b); });
        tryit<std::vector<std::string>>("cbor vector<string>", [&] { return cbor::decode_cbor<std::vector<std::string>>(b); }); tryit<json>("cbor json", [&] { return cbor::decode_cbor<json>(b); }); }
    for (auto& b : mp) { tryit<std::vector<double>>("msgpack vector<double>", [&] { return msgpack::decode_msgpack<std::vector<double>>(b); }); tryit<std::vector<std::string>>("msgpack vector<string>", [&] { return msgpack::decode_msgpack<std::vector<std::string>>(b); }); tryit<json>("msgpack json", [&] { return msgpack::decode_msgpack<json>(b); }); }
    { std::vector<uint8_t> m = {0xbb, 0x0f, 0xff, 0xff, 0xff, 0xff, 0xff, 0xff, 0xff, 0x61, 0x61, 0x01}; tryit<std::map<std::string,int>>("cbor map<string,int>", [&] { return cbor::decode_cbor<std::map<std::string,int>>(m); }); }
    if (bad) VX_REPRO(bad << " of " << total << " inputs with a claimed length end with a foreign exception, first: " << first);
    VX_NOREPRO("all " << total << " inputs with a claimed length of 2^31 .. 2^60 elements end with a jsoncons error, without allocator reports");
}
