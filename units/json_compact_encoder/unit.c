/* unit json_compact_encoder: basic_compact_json_encoder::visit_* - the comma/colon/bracket bookkeeping of the compact JSON encoder against the RFC 8259
 * structural grammar (sections 2-5), proved per operation with a representation invariant (DESIGN 5.4), hence for all event histories */
#include "vx_common.h"
#include "model_stack.h"
enum { container_type_object = 0, container_type_array = 1 };
/*@ENUM json_errc@*/
/*@ENUM semantic_tag@*/
/*@ENUM byte_string_chars_format@*/
/*@FUNC resolve_byte_string_chars_format@*/
struct compact_encoder { int nesting_depth_; int max_nesting_depth_; int byte_string_format_; };
/* ---- S-JSONTXT: push-down monitor over the output tokens; of its stack only the top frame is kept (kind, state), the frame below the top is
 * described by the ghost vx_below_kind: frames below the top are not touched by any operation (frame rule), so the invariant is inductive per frame */
enum { K_ROOT = 0, K_ARRAY = 1, K_OBJECT = 2 };
enum { S_EMPTY = 0, S_AFTER_VALUE = 1, S_AFTER_COMMA = 2, S_AFTER_KEY = 3, S_AFTER_COLON = 4, S_BAD = 5 };
static int vx_m_kind, vx_m_st; static size_t vx_m_depth;   /* monitor: kind and state of the innermost open frame, number of open containers */
static int vx_below_kind;                                   /* kind of the frame below the innermost one (K_ROOT iff exactly one container is open) */
static bool vx_bad; static unsigned vx_toks;
static void vx_value_done(void) { vx_m_st = S_AFTER_VALUE; }
static bool vx_expects_value(void) { return vx_m_kind == K_ROOT ? vx_m_st == S_EMPTY : vx_m_kind == K_ARRAY ? (vx_m_st == S_EMPTY || vx_m_st == S_AFTER_COMMA) : vx_m_st == S_AFTER_COLON; }
/* precondition of the value events: the grammar allows a value here, possibly after the comma that the encoder itself writes between array elements */
static bool vx_value_may_follow(void) { return vx_m_kind == K_ROOT ? vx_m_st == S_EMPTY : vx_m_kind == K_ARRAY ? (vx_m_st == S_EMPTY || vx_m_st == S_AFTER_VALUE) : vx_m_st == S_AFTER_COLON; }
static void VX_TOK_VALUE(void) { vx_toks++; if (!vx_expects_value()) vx_bad = true; vx_value_done(); __CPROVER_assert(!vx_bad, "[C08] a value is written only where the RFC 8259 grammar expects one"); }
static unsigned vx_bytes_toks; static int vx_bytes_fmt;
static void VX_TOK_VALUE(void);
static void VX_TOK_BYTES(int fmt) { vx_bytes_toks++; vx_bytes_fmt = fmt; VX_TOK_VALUE(); }   /* quote, bytes_to_baseN (unit base64), quote: one string token */
static void VX_TOK_STRING_KEY(void) { vx_toks++; if (!(vx_m_kind == K_OBJECT && (vx_m_st == S_EMPTY || vx_m_st == S_AFTER_COMMA))) vx_bad = true; vx_m_st = S_AFTER_KEY; __CPROVER_assert(!vx_bad, "[C08] a member name is written only at the start of a member"); }
static void VX_TOK(char c)
{
    vx_toks++;
    switch (c) {
    case ',': if (!(vx_m_kind != K_ROOT && vx_m_st == S_AFTER_VALUE)) vx_bad = true; vx_m_st = S_AFTER_COMMA; break;
    case ':': if (!(vx_m_kind == K_OBJECT && vx_m_st == S_AFTER_KEY)) vx_bad = true; vx_m_st = S_AFTER_COLON; break;
    case '{': case '[': if (!vx_expects_value()) vx_bad = true; vx_below_kind = vx_m_kind; vx_m_kind = (c == '{' ? K_OBJECT : K_ARRAY); vx_m_st = S_EMPTY; vx_m_depth++; break;
    case '}': case ']':
        if (!(vx_m_kind == (c == '}' ? K_OBJECT : K_ARRAY) && (vx_m_st == S_EMPTY || vx_m_st == S_AFTER_VALUE)) || vx_m_depth == 0) vx_bad = true;
        else { vx_m_depth--; vx_m_kind = vx_below_kind; vx_m_st = S_AFTER_VALUE;        /* the closed container was a value of the frame below */
               vx_below_kind = (vx_m_depth <= 1) ? K_ROOT : (nondet_bool() ? K_ARRAY : K_OBJECT); }
        break;
    default: vx_bad = true;
    }
    __CPROVER_assert(!vx_bad, "[C08] every structural character written is one the RFC 8259 grammar allows at this point");
}
/* code stack: model_stack (depth, top); a pop reveals the frame below, whose kind is the one the monitor knows (same stack of kinds: invariant) */
#define VX_ENC_POP() do { __CPROVER_assert(vx_depth > 0, "[C05] pop_back on an empty container stack"); vx_depth--; vx_pops++; \
    vx_top.type_ = (vx_below_kind == K_ARRAY) ? container_type_array : container_type_object; vx_top.index_ = nondet_size(); __CPROVER_assume(vx_top.index_ < SIZE_MAX); } while (0)
/* the representation invariant (DESIGN 5.4) */
#define VX_KIND_OF_TOP() (vx_depth == 0 ? K_ROOT : (vx_top.type_ == container_type_array ? K_ARRAY : K_OBJECT))
#define VX_I() (!vx_bad && vx_depth == vx_m_depth && self->nesting_depth_ >= 0 && self->nesting_depth_ <= self->max_nesting_depth_ && (size_t)self->nesting_depth_ == vx_depth \
    && VX_KIND_OF_TOP() == vx_m_kind && (vx_depth == 1 ? vx_below_kind == K_ROOT : (vx_depth >= 2 ? (vx_below_kind == K_ARRAY || vx_below_kind == K_OBJECT) : 1)) \
    && (vx_depth > 0 ==> (vx_top.type_ == container_type_array || vx_top.type_ == container_type_object)) \
    && (vx_m_kind == K_ROOT ==> (vx_m_st == S_EMPTY || vx_m_st == S_AFTER_VALUE)) \
    && (vx_m_kind == K_ARRAY ==> ((vx_m_st == S_EMPTY && vx_top.index_ == 0) || (vx_m_st == S_AFTER_VALUE && vx_top.index_ > 0))) \
    && (vx_m_kind == K_OBJECT ==> ((vx_m_st == S_EMPTY && vx_top.index_ == 0) || (vx_m_st == S_AFTER_VALUE && vx_top.index_ > 0) || vx_m_st == S_AFTER_COLON)))
/*@GROUP visits@*/
#ifdef VX_CBMC
static struct compact_encoder vx_e; static int vx_ec;
static void setup(void)
{
    vx_e.nesting_depth_ = nondet_int(); vx_e.max_nesting_depth_ = nondet_int();
    vx_depth = nondet_size(); vx_top.type_ = nondet_int(); vx_top.index_ = nondet_size(); vx_pushes = 0; vx_pops = 0;
    vx_m_kind = nondet_int(); vx_m_st = nondet_int(); vx_m_depth = nondet_size(); vx_below_kind = nondet_int(); vx_bad = false; vx_toks = 0; vx_ec = 0; vx_bytes_toks = 0; vx_e.byte_string_format_ = nondet_u8();
}
double nondet_double(void);
void h_visit_begin_object(void) { setup(); visit_begin_object(&vx_e, &vx_ec); }
void h_visit_end_object(void) { setup(); visit_end_object(&vx_e, &vx_ec); }
void h_visit_begin_array(void) { setup(); visit_begin_array(&vx_e, &vx_ec); }
void h_visit_end_array(void) { setup(); visit_end_array(&vx_e, &vx_ec); }
void h_visit_key(void) { setup(); visit_key(&vx_e, &vx_ec); }
void h_visit_null(void) { setup(); visit_null(&vx_e, &vx_ec); }
void h_visit_string(void) { setup(); visit_string(&vx_e, &vx_ec); }
void h_visit_double(void) { setup(); visit_double(&vx_e, nondet_double(), &vx_ec); }
void h_visit_int64(void) { setup(); visit_int64(&vx_e, nondet_i64(), &vx_ec); }
void h_visit_uint64(void) { setup(); visit_uint64(&vx_e, nondet_u64(), &vx_ec); }
void h_visit_byte_string(void) { setup(); uint8_t t = nondet_u8(); visit_byte_string(&vx_e, t, &vx_ec); }
void h_visit_bool(void) { setup(); visit_bool(&vx_e, nondet_bool(), &vx_ec); }
#endif
