// replay for unit ojson_bloom: builds insertion-ordered objects in bulk (parse, range insert) from member lists with repeated names and checks
// that every name is kept once, with the first value (ojson objects are maps with unique keys)
#include <jsoncons/json.hpp>
#include "replay_util.hpp"
#include <random>
#include <set>
using namespace jsoncons;
int main(int argc, char** argv)
{
    if (argc < 3) return 2;
    std::mt19937 rng(4242); int bad = 0, total = 0; std::string first;
    for (int it = 0; it < 4000; ++it) {
        int n = 2 + rng() % 40, pool = 1 + rng() % n;
        std::string text = "{"; std::vector<std::string> names; std::set<std::string> distinct;
        for (int i = 0; i < n; ++i) { std::string nm(1 + rng() % 2, (char)('a' + rng() % 26)); nm += std::to_string(rng() % pool); names.push_back(nm); distinct.insert(nm); text += (i ? "," : "") + std::string("\"") + nm + "\":" + std::to_string(i); }
        text += "}";
        ojson j = ojson::parse(text); ++total;
        bool ok = j.size() == distinct.size();
        for (const auto& nm : distinct) { int firstpos = -1; for (int i = 0; i < n; ++i) if (names[i] == nm) { firstpos = i; break; } if (!j.contains(nm) || j.at(nm).as<int>() != firstpos) ok = false; }
        std::set<std::string> seen; for (const auto& kv : j.object_range()) if (!seen.insert(std::string(kv.key())).second) ok = false;
        if (!ok) { if (!bad) first = text.substr(0, 200) + " -> " + j.to_string().substr(0, 200); ++bad; }
    }
    if (bad) VX_REPRO(bad << " of " << total << " ojson objects hold a duplicate or wrong member, first: " << first);
    VX_NOREPRO("all " << total << " ojson objects built in bulk have unique keys with the first value");
}
