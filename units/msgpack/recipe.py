# U-MP-INT-W, U-MP-LEN-W, U-MP-COUNT, U-MP-DEPTH (DESIGN 6): MessagePack encoder heads
from core import FuncSpec, CopySpec, EnumSpec, Harness, INF
import common_specs as cs

E = 'include/jsoncons_ext/msgpack/msgpack_encoder.hpp'
TY = 'include/jsoncons_ext/msgpack/msgpack_type.hpp'

SINK_RULES = [
    (r'jsoncons::msgpack::msgpack_type::(\w+)', r'msgpack_type_\1', 0, 40),
    (r'binary::native_to_big\(static_cast<(u?)int(8|16|32|64)_t>\((\w+)\),\s*std::back_inserter\(sink_\)\)', r'native_to_big_u\2((uint\2_t)(\1int\2_t)(\3))', 0, 12),
    (r'sink_\.push_back\(', 'vx_sink_push(', 0, 30),
    (r'JSONCONS_VISITOR_RETURN;', 'return;', 0, 12),
    (r'msgpack_errc::(\w+)', r'msgpack_errc_\1', 0, 8),
    (r'semantic_tag::(\w+)', r'semantic_tag_\1', 0, 8),
    (r'msgpack_container_type::(\w+)', r'msgpack_container_type_\1', 0, 4),
]
TS_RULES = [
    (r'auto dv = std::div\(', 'struct vx_div_t dv = vx_div(', 0, 4),
    (r'write_timestamp\(', 'vx_write_timestamp(', 0, 8),
]
STACK_RULES = [
    (r'stack_\.emplace_back\(', 'VX_STACK_EMPLACE(', 0, 2),
    (r'stack_\.back\(\)\.count\(\)', 'stack_item_count(&vx_top)', 0, 4),
    (r'stack_\.back\(\)\.length\(\)', 'stack_item_length(&vx_top)', 0, 4),
    (r'stack_\.pop_back\(\);', 'VX_STACK_POP();', 0, 1),
    (r'!stack_\.empty\(\)', '!VX_STACK_EMPTY()', 0, 2),
    (r'\+\+stack_\.back\(\)\.index_;', '++vx_top.index_;', 0, 1),
    (r'end_value\(\);', 'end_value(self);', 0, 2),
]
AL = {'ec': '(*ec_p)', 'nesting_depth_': '(self->nesting_depth_)', 'max_nesting_depth_': '(self->max_nesting_depth_)'}

EXP = 'vx_exp'
def sink_equals(spec_call):
    return ('vx_sink_n == (size_t)%s && ' % spec_call) + ' && '.join('(vx_sink_n > %d ==> vx_sink[%d] == vx_exp[%d])' % (i, i, i) for i in range(9))

INT_COMMON = [('requires', 'vx_sink_n == 0 && tag == semantic_tag_none && vx_depth <= 1000'),
              ('assigns', 'vx_sink_n, __CPROVER_object_whole(vx_sink), __CPROVER_object_whole(vx_exp), vx_top.index_, vx_ts_called')]
VISIT_I64 = INT_COMMON + [
    ('ensures', '[C06][C08] a non-negative int64 is written in the smallest unsigned MessagePack int format', 'val >= 0 ==> (%s)' % sink_equals('spec_mp_uint((uint64_t)val, vx_exp)')),
    ('ensures', '[C06][C08] a negative int64 is written in the smallest signed MessagePack int format (never missing, never truncated)', 'val < 0 ==> (%s)' % sink_equals('spec_mp_nint(val, vx_exp)')),
    ('ensures', '[C08] the item is counted once in the enclosing container', '__CPROVER_old(vx_depth) > 0 ==> vx_top.index_ == __CPROVER_old(vx_top.index_) + 1'),
]
VISIT_U64 = INT_COMMON + [
    ('ensures', '[C06][C08] a uint64 is written in the smallest unsigned MessagePack int format, for all 2^64 values', sink_equals('spec_mp_uint(val, vx_exp)')),
    ('ensures', '[C08] the item is counted once in the enclosing container', '__CPROVER_old(vx_depth) > 0 ==> vx_top.index_ == __CPROVER_old(vx_top.index_) + 1'),
]

def begin(kind, is_map):
    post = [
        ('requires', 'vx_sink_n == 0 && *ec_p == 0 && self->nesting_depth_ >= 0 && self->nesting_depth_ <= self->max_nesting_depth_ && self->max_nesting_depth_ < INT_MAX && vx_depth < 100000 && vx_pushes == 0'),
        ('requires', 'length <= 0xffffffffull'),   # carve-out of known finding F12 (see known_findings.json); the complement is harness *_toolong
        ('assigns', 'vx_sink_n, __CPROVER_object_whole(vx_sink), __CPROVER_object_whole(vx_exp), *ec_p, self->nesting_depth_, vx_depth, vx_pushes, vx_top'),
        ('ensures', '[C10] opening a container at depth == limit is refused with max_nesting_depth_exceeded before anything is written or pushed',
         '__CPROVER_old(self->nesting_depth_) == self->max_nesting_depth_ ==> (*ec_p == msgpack_errc_max_nesting_depth_exceeded && vx_sink_n == 0 && vx_pushes == 0)'),
        ('ensures', '[C10] opening a container below the limit is accepted (limit itself is reachable)',
         '__CPROVER_old(self->nesting_depth_) < self->max_nesting_depth_ ==> (*ec_p == 0 && self->nesting_depth_ == __CPROVER_old(self->nesting_depth_) + 1 && vx_pushes == 1 && vx_top.length_ == length && vx_top.index_ == 0 && vx_top.type_ == msgpack_container_type_%s)' % kind),
        ('ensures', '[C06][C08] the header is the smallest MessagePack %s header denoting exactly the declared length' % kind,
         '*ec_p == 0 ==> (%s)' % sink_equals('spec_mp_container_head(%d, length, vx_exp)' % is_map)),
    ]
    return post

TOOLONG = lambda fn: [
    ('requires', 'vx_sink_n == 0 && *ec_p == 0 && self->nesting_depth_ >= 0 && self->nesting_depth_ < self->max_nesting_depth_ && vx_depth < 100000 && vx_pushes == 0'),
    ('requires', 'length > 0xffffffffull'),
    ('assigns', 'vx_sink_n, __CPROVER_object_whole(vx_sink), *ec_p, self->nesting_depth_, vx_depth, vx_pushes, vx_top'),
    ('ensures', '[C06][C08] a length above 2^32-1 is not representable and must be refused with an error (never a container without header)', '*ec_p != 0'),
]

END = lambda: [
    ('requires', '*ec_p == 0 && vx_depth >= 1 && vx_depth < 100000 && vx_pops == 0 && self->nesting_depth_ >= 1'),
    ('assigns', '*ec_p, self->nesting_depth_, vx_depth, vx_pops, vx_top'),
    ('ensures', '[C08][C06] fewer items than declared is too_few_items', 'spec_count(__CPROVER_old(vx_top)) < __CPROVER_old(vx_top.length_) ==> *ec_p == msgpack_errc_too_few_items'),
    ('ensures', '[C08][C06] more items than declared is too_many_items', 'spec_count(__CPROVER_old(vx_top)) > __CPROVER_old(vx_top.length_) ==> *ec_p == msgpack_errc_too_many_items'),
    ('ensures', '[C08][C06] exactly the declared number of items closes the container', 'spec_count(__CPROVER_old(vx_top)) == __CPROVER_old(vx_top.length_) ==> (*ec_p == 0 && vx_pops == 1 && vx_depth == __CPROVER_old(vx_depth) - 1)'),
    ('ensures', '[C10] the nesting depth is decremented', 'self->nesting_depth_ == __CPROVER_old(self->nesting_depth_) - 1'),
]

STR_HEAD = [
    ('requires', 'vx_sink_n == 0 && length <= 0xffffffffull'),
    ('assigns', 'vx_sink_n, __CPROVER_object_whole(vx_sink), __CPROVER_object_whole(vx_exp)'),
    ('ensures', '[C06][C08] the string header is the smallest MessagePack str header denoting exactly the byte length', sink_equals('spec_mp_str_head(length, vx_exp)')),
]
BIN_HEAD = [
    ('requires', 'vx_sink_n == 0 && length <= 0xffffffffull'),
    ('assigns', 'vx_sink_n, __CPROVER_object_whole(vx_sink), __CPROVER_object_whole(vx_exp)'),
    ('ensures', '[C06][C08] the byte string header is the smallest MessagePack bin header denoting exactly the byte length', sink_equals('spec_mp_bin_head(length, vx_exp)')),
]

def visit(name, anchor, csig, contract, extra=(), **kw):
    return FuncSpec(name, E, anchor, count=1, csig=csig, contract=contract, aliases=AL,
                    rules=list(extra) + STACK_RULES + TS_RULES + SINK_RULES, **kw)

SPECS = [
    EnumSpec('msgpack_errc', 'include/jsoncons_ext/msgpack/msgpack_error.hpp'),
    EnumSpec('msgpack_container_type', E),
    EnumSpec('semantic_tag', 'include/jsoncons/semantic_tag.hpp'),
    CopySpec('msgpack_types', TY, r'JSONCONS_INLINE_CONSTEXPR uint8_t positive_fixint_base_type', r'negative_fixint_base_type = 0xe0;', include_end=True,
             rules=[(r'JSONCONS_INLINE_CONSTEXPR uint8_t (\w+) = ([^;]+);', r'enum { msgpack_type_\1 = \2 };', 30, 50)]),
    FuncSpec('stack_item_length', E, r'std::size_t length\(\) const', count=1, csig='static size_t stack_item_length(const struct vx_stack_item* self)',
             rules=[(r'\blength_\b', 'self->length_', 1)]),
    FuncSpec('stack_item_is_object', E, r'bool is_object\(\) const', count=1, csig='static bool stack_item_is_object(const struct vx_stack_item* self)',
             rules=[(r'\btype_\b', 'self->type_', 1), (r'msgpack_container_type::(\w+)', r'msgpack_container_type_\1', 1)]),
    FuncSpec('stack_item_count', E, r'std::size_t count\(\) const', count=1, csig='static size_t stack_item_count(const struct vx_stack_item* self)',
             rules=[(r'is_object\(\)', 'stack_item_is_object(self)', 1), (r'\bindex_\b', 'self->index_', 2)]),
    FuncSpec('end_value', E, r'void end_value\(\)', count=1, csig='static void end_value(struct msgpack_encoder* self)', rules=STACK_RULES),
    visit('visit_int64', r'visit_int64\(int64_t val,\s*semantic_tag tag,\s*const ser_context&,\s*std::error_code&\) final',
          'void visit_int64(struct msgpack_encoder* self, int64_t val, int tag)', VISIT_I64),
    visit('visit_uint64', r'visit_uint64\(uint64_t val,\s*semantic_tag tag,\s*const ser_context&,\s*std::error_code&\) final',
          'void visit_uint64(struct msgpack_encoder* self, uint64_t val, int tag)', VISIT_U64),
    visit('visit_begin_object', r'visit_begin_object\(std::size_t length, semantic_tag, const ser_context&, std::error_code& ec\) final',
          'void visit_begin_object(struct msgpack_encoder* self, size_t length, int* ec_p)', begin('object', 1)),
    visit('visit_begin_array', r'visit_begin_array\(std::size_t length, semantic_tag, const ser_context&, std::error_code& ec\) final',
          'void visit_begin_array(struct msgpack_encoder* self, size_t length, int* ec_p)', begin('array', 0)),
    visit('visit_end_object', r'visit_end_object\(const ser_context&, std::error_code& ec\) final',
          'void visit_end_object(struct msgpack_encoder* self, int* ec_p)', END()),
    visit('visit_end_array', r'visit_end_array\(const ser_context&, std::error_code& ec\) final',
          'void visit_end_array(struct msgpack_encoder* self, int* ec_p)', END()),
    # header part of write_string_value / visit_byte_string: the payload copy loop is cut off (rule), the header selection is verbatim
    FuncSpec('write_string_head', E, r'void write_string_value\(const string_view_type& sv\)', count=1,
             csig='void write_string_head(size_t vx_len)', contract=[(k, *(x.replace('length', 'vx_len') for x in rest)) for (k, *rest) in STR_HEAD],
             rules=[(r'auto sink = unicode_traits::validate\(sv\.data\(\), sv\.size\(\)\);\s*if \(sink\.ec != unicode_traits::unicode_errc\(\)\)\s*\{\s*JSONCONS_THROW\(ser_error\(msgpack_errc::invalid_utf8_text_string\)\);\s*\}', 'VX_UTF8_VALIDATED();', 1),
                    (r'const size_t length = sv\.length\(\);', 'const size_t length = vx_len;', 1),
                    (r'for \(auto c : sv\)\s*\{\s*sink_\.push_back\(c\);\s*\}', 'VX_PAYLOAD(length);', 1)] + SINK_RULES),
    FuncSpec('write_bin_head', E, r'visit_byte_string\(const byte_string_view& b,\s*semantic_tag,\s*const ser_context&,\s*std::error_code&\) final', count=1,
             csig='void write_bin_head(struct msgpack_encoder* self, size_t vx_len)', contract=[(k, *(x.replace('length', 'vx_len') for x in rest)) for (k, *rest) in BIN_HEAD],
             rules=[(r'const std::size_t length = b\.size\(\);', 'const size_t length = vx_len;', 1),
                    (r'for \(auto c : b\)\s*\{\s*sink_\.push_back\(c\);\s*\}\s*end_value\(\);', 'VX_PAYLOAD(length);', 1)] + SINK_RULES),
]
# ---- known finding F12 (known_findings.json): lengths above 2^32-1 have no MessagePack representation; the encoder neither
# reports an error nor writes a header.  The same bodies are verified under the complementary precondition (the carve-out of the
# main harnesses); the obligation below is expected to fail there and is reported as KNOWN-FINDING, any other failure is a violation.
TOOLONG_C = [
    ('requires', 'vx_sink_n == 0 && *ec_p == 0 && self->nesting_depth_ >= 0 && self->nesting_depth_ < self->max_nesting_depth_ && self->max_nesting_depth_ < INT_MAX && vx_depth < 100000 && vx_pushes == 0'),
    ('requires', 'length > 0xffffffffull'),
    ('assigns', 'vx_sink_n, __CPROVER_object_whole(vx_sink), *ec_p, self->nesting_depth_, vx_depth, vx_pushes, vx_top'),
    ('ensures', '[C06][C08] F12: a container length above 2^32-1 is not representable in MessagePack and must be refused with an error (never a container without header)', '*ec_p != 0'),
]
TOOLONG_S = [
    ('requires', 'vx_sink_n == 0 && vx_len > 0xffffffffull && vx_thrown == 0'),
    ('assigns', 'vx_sink_n, __CPROVER_object_whole(vx_sink), vx_thrown'),
    ('ensures', '[C06][C08] F12: a string or byte-string length above 2^32-1 is not representable in MessagePack and must be refused (never a body without header)', 'vx_thrown != 0'),
]
SPECS += [
    visit('visit_begin_object_toolong', r'visit_begin_object\(std::size_t length, semantic_tag, const ser_context&, std::error_code& ec\) final',
          'void visit_begin_object_toolong(struct msgpack_encoder* self, size_t length, int* ec_p)', TOOLONG_C),
    visit('visit_begin_array_toolong', r'visit_begin_array\(std::size_t length, semantic_tag, const ser_context&, std::error_code& ec\) final',
          'void visit_begin_array_toolong(struct msgpack_encoder* self, size_t length, int* ec_p)', TOOLONG_C),
]
_str = [x for x in SPECS if getattr(x, 'name', '') == 'write_string_head'][0]
_bin = [x for x in SPECS if getattr(x, 'name', '') == 'write_bin_head'][0]
SPECS += [
    FuncSpec('write_string_head_toolong', E, _str.anchor, count=1, csig='void write_string_head_toolong(size_t vx_len)', contract=TOOLONG_S, rules=_str.rules),
    FuncSpec('write_bin_head_toolong', E, _bin.anchor, count=1, csig='void write_bin_head_toolong(struct msgpack_encoder* self, size_t vx_len)', contract=TOOLONG_S, rules=_bin.rules),
]
GROUPS = {'binary': cs.binary_group(widths=(8, 16, 32, 64))}

SITE_CHECKS = [
    {'file': E, 'pattern': r'\+\+nesting_depth_ > max_nesting_depth_', 'count': 2, 'props': ['C10'],
     'what': 'every container-opening path of the MessagePack encoder has the depth guard (begin_object, begin_array)'},
    {'file': E, 'pattern': r'stack_\.emplace_back\(', 'count': 2, 'props': ['C10'], 'what': 'containers are opened only in the two guarded functions'},
]

HARNESSES = [
    Harness('visit_int64', 'h_visit_int64', enforce='visit_int64', method='LF', unwind=9, props=['C06', 'C08']),
    Harness('visit_uint64', 'h_visit_uint64', enforce='visit_uint64', method='LF', unwind=9, props=['C06', 'C08']),
    Harness('begin_object', 'h_begin_object', enforce='visit_begin_object', method='LF', unwind=9, props=['C06', 'C08', 'C10']),
    Harness('begin_array', 'h_begin_array', enforce='visit_begin_array', method='LF', unwind=9, props=['C06', 'C08', 'C10']),
    Harness('end_object', 'h_end_object', enforce='visit_end_object', method='LF', unwind=9, props=['C06', 'C08', 'C10']),
    Harness('end_array', 'h_end_array', enforce='visit_end_array', method='LF', unwind=9, props=['C06', 'C08', 'C10']),
    Harness('str_head', 'h_str_head', enforce='write_string_head', method='LF', unwind=9, props=['C06', 'C08']),
    Harness('bin_head', 'h_bin_head', enforce='write_bin_head', method='LF', unwind=9, props=['C06', 'C08']),
    Harness('begin_object_toolong', 'h_begin_object_toolong', enforce='visit_begin_object_toolong', method='LF', unwind=9, props=['C06', 'C08'], known='F12'),
    Harness('begin_array_toolong', 'h_begin_array_toolong', enforce='visit_begin_array_toolong', method='LF', unwind=9, props=['C06', 'C08'], known='F12'),
    Harness('str_head_toolong', 'h_str_head_toolong', enforce='write_string_head_toolong', method='LF', unwind=9, props=['C06', 'C08'], known='F12'),
    Harness('bin_head_toolong', 'h_bin_head_toolong', enforce='write_bin_head_toolong', method='LF', unwind=9, props=['C06', 'C08'], known='F12'),
]
