# unit cbor_strings (C07, C06, C05): the string readers of basic_cbor_parser that sit between the item dispatch (unit cbor_item) and the chunk loop
# (unit cbor_chunks): read_text_string_view, read_byte_string_view, read_byte_string.  What they deliver (which bytes), which buffer they use and when the
# decoder's stringref table gets an entry (stringref specification: definite-length strings of at least the minimum length for the next index).
from core import FuncSpec, CopySpec, EnumSpec, Harness
P = 'include/jsoncons_ext/cbor/cbor_parser.hpp'
D = 'include/jsoncons_ext/cbor/cbor_detail.hpp'
AL = {'more_': '(self->more_)', 'ec': '(*ec_p)'}
NS = r'jsoncons::cbor::detail::'
def rules(buf, B):
    return [
        (r'auto c = source_\.peek\(\);', 'struct vx_peek_result c = vx_peek();', 1), (r'source_\.ignore\(1\);', 'vx_ignore(1);', 1), (r'cbor_errc::(\w+)', r'cbor_errc_\1', 2, 4),
        (NS + r'cbor_major_type major_type = ', 'uint8_t major_type = ', 1), (NS + r'additional_info::indefinite_length', '0x1f /* additional_info::indefinite_length, pinned by a site check in unit cbor_chunks */', 1),
        (NS + r'cbor_major_type::(\w+)', r'cbor_major_type_\1', 1), (NS + r'min_length_for_stringref\(stringref_map_stack_\.back\(\)\.size\(\)\)', 'min_length_for_stringref(vx_table_size)', 1),
        (r'JSONCONS_ASSERT\(major_type == cbor_major_type_(\w+)\);', r'__CPROVER_assert(major_type == cbor_major_type_\1, "[C05] JSONCONS_ASSERT: the caller dispatched on the major type");', 1),
        (r'%s\.clear\(\);' % buf, 'vx_buf_clear(%s);' % B, 0, 2), (r'\bv\.clear\(\);', 'vx_buf_clear(%s);' % B, 0, 1),
        (r'iterate_string_chunks\((?:%s|v), major_type, ec\);' % buf, 'vx_iterate(%s, major_type, ec_p);' % B, 1),
        (r'std::size_t length = read_size\(ec\);', 'size_t length = vx_read_size(ec_p);', 1),
        (r'auto data = source_\.read_span\(length, %s\);' % buf, 'struct vx_span data = vx_read_span(length, %s);' % B, 0, 1), (r'data\.size\(\)', 'data.size', 0, 3),
        (r'source_reader<Source>::read\(source_, v, length\)', 'vx_read_into(%s, length)' % B, 0, 1),
        (r'return (?:string_view_type|byte_string_view)\(\);', 'return vx_view_none();', 0, 6),
        (r'return (?:string_view_type|byte_string_view)\(%s\.data\(\), %s\.size\(\)\);' % (buf, buf), 'return vx_view_buffer(%s);' % B, 0, 1),
        (r'string_view_type sv\(reinterpret_cast<const char_type\*>\(data\.data\(\)\), data\.size\);', 'struct vx_view sv = vx_view_span(data);', 0, 1), (r'byte_string_view bytes\(data\.data\(\), data\.size\);', 'struct vx_view bytes = vx_view_span(data);', 0, 1),
        (r'!stringref_map_stack_\.empty\(\)', 'vx_has_table', 1), (r'\b(?:sv\.length\(\)|bytes\.size\(\))', 'VX_VIEW_LEN', 0, 1), (r'\bv\.size\(\)', 'vx_buf_size[%s]' % B, 0, 1),
        (r'stringref_map_stack_\.back\(\)\.emplace_back\(mapped_string\((sv|bytes|v),\s*alloc_\)\);', lambda m: 'vx_table_add(%s);' % ('VX_VIEW_LEN' if m.group(1) != 'v' else 'vx_buf_size[%s]' % B), 1),
    ]
def view_contract(kind, B):
    AT_EOF, INDEF = 'vx_peek_eof', '(!vx_peek_eof && (vx_peek_val & 0x1f) == 0x1f)'
    DEF = '(!vx_peek_eof && (vx_peek_val & 0x1f) != 0x1f)'
    return [
        ('requires', '*ec_p == 0 && self->more_ && vx_peeks == 0 && vx_iterates == 0 && vx_table_adds == 0 && vx_spans == 0 && vx_table_size <= SIZE_MAX - 1'),
        ('assigns', '*ec_p, self->more_, vx_peeks, vx_peek_eof, vx_peek_val, vx_ignored, vx_iterates, vx_iter_ok, vx_sizes, vx_size_ok, vx_len, vx_spans, vx_span_got, vx_table_adds, vx_table_added_len, vx_view_kind, vx_view_len, vx_dirty, __CPROVER_object_whole(vx_buf_size)'),
        ('ensures', '[C07][C03] at the end of the input: unexpected_eof, the parser stops', '%s ==> (*ec_p == cbor_errc_unexpected_eof && !self->more_ && vx_view_kind == VIEW_NONE)' % AT_EOF),
        ('ensures', '[C07][C06] an indefinite-length %s (RFC 8949 3.2.3) is the concatenation of its chunks and nothing else: the buffer is emptied before the chunks are appended, the indicator byte is consumed first, and the whole buffer is what is delivered; an error of a chunk is passed on and nothing is delivered' % kind,
         '%s ==> (vx_iterates == 1 && vx_ignored == 1 && (vx_iter_ok ? (*ec_p == 0 && vx_view_kind == VIEW_BUFFER && vx_view_len == vx_buf_size[%s]) : (*ec_p != 0 && vx_view_kind == VIEW_NONE)))' % (INDEF, B)),
        ('ensures', '[C06] stringref: an indefinite-length string never enters the string table', '%s ==> vx_table_adds == 0' % INDEF),
        ('ensures', '[C07][C06] a definite-length %s is exactly the next `length` bytes of the input; fewer bytes are unexpected_eof and stop the parser' % kind,
         '%s ==> (vx_iterates == 0 && vx_sizes == 1 && (!vx_size_ok ? (*ec_p != 0 && vx_view_kind == VIEW_NONE && vx_spans == 0) : (vx_spans == 1 && (vx_span_got == vx_len ? (*ec_p == 0 && vx_view_kind == VIEW_SPAN && vx_view_len == vx_len) : (*ec_p == cbor_errc_unexpected_eof && !self->more_ && vx_view_kind == VIEW_NONE)))))' % DEF),
        ('ensures', '[C06] stringref: inside a stringref namespace a definite-length string delivered enters the table exactly when its length reaches the minimum for the next index (24 entries: 3, 256: 4, 65536: 5, 2^32: 7 ... bytes); outside a namespace, or on an error, nothing is entered',
         '%s ==> (vx_table_adds == ((*ec_p == 0 && vx_has_table && vx_len >= spec_strref_min_length(vx_table_size)) ? 1 : 0) && (vx_table_adds == 1 ==> vx_table_added_len == vx_len))' % DEF),
    ]
def vec_contract(B):
    INDEF = '(!vx_peek_eof && (vx_peek_val & 0x1f) == 0x1f)'; DEF = '(!vx_peek_eof && (vx_peek_val & 0x1f) != 0x1f)'
    return [
        ('requires', '*ec_p == 0 && self->more_ && vx_peeks == 0 && vx_iterates == 0 && vx_table_adds == 0 && vx_spans == 0 && vx_table_size <= SIZE_MAX - 1'),
        ('assigns', '*ec_p, self->more_, vx_peeks, vx_peek_eof, vx_peek_val, vx_ignored, vx_iterates, vx_iter_ok, vx_sizes, vx_size_ok, vx_len, vx_spans, vx_span_got, vx_table_adds, vx_table_added_len, vx_view_kind, vx_view_len, vx_dirty, __CPROVER_object_whole(vx_buf_size)'),
        ('ensures', '[C07][C03] at the end of the input: unexpected_eof', 'vx_peek_eof ==> *ec_p == cbor_errc_unexpected_eof'),
        ('ensures', '[C07][C06] the vector receives the byte string and nothing else: it is emptied first; an indefinite-length string is the concatenation of its chunks, a definite-length one the next `length` bytes (fewer: unexpected_eof)',
         '!vx_dirty && (%s ==> (vx_iterates == 1 && vx_ignored == 1 && (*ec_p == 0) == vx_iter_ok)) && (%s ==> (vx_iterates == 0 && vx_sizes == 1 && (vx_size_ok ==> (vx_spans == 1 && ((*ec_p == 0) == (vx_span_got == vx_len)) && (*ec_p == 0 ==> vx_buf_size[%s] == vx_len)))))' % (INDEF, DEF, B)),
        ('ensures', '[C06] stringref: only a definite-length string delivered completely enters the table, exactly when its length reaches the minimum for the next index',
         'vx_table_adds == ((%s && *ec_p == 0 && vx_has_table && vx_len >= spec_strref_min_length(vx_table_size)) ? 1 : 0) && (vx_table_adds == 1 ==> vx_table_added_len == vx_len)' % DEF),
    ]
SPECS = [
    EnumSpec('cbor_errc', 'include/jsoncons_ext/cbor/cbor_error.hpp'), EnumSpec('cbor_major_type', D),
    FuncSpec('get_additional_information_value', P, r'static uint8_t get_additional_information_value\(uint8_t type\)', csig='static uint8_t get_additional_information_value(uint8_t type)'),
    FuncSpec('get_major_type', P, r'static jsoncons::cbor::detail::cbor_major_type get_major_type\(uint8_t type\)', csig='static uint8_t get_major_type(uint8_t type)',
             rules=[(r'static_cast<jsoncons::cbor::detail::cbor_major_type>\(value\)', '(uint8_t)(value)', 1)]),
    FuncSpec('min_length_for_stringref', D, r'size_t min_length_for_stringref\(uint64_t index\)', count=1, csig='static size_t min_length_for_stringref(uint64_t index)'),
    FuncSpec('read_text_string_view', P, r'string_view_type read_text_string_view\(std::error_code& ec\)', count=1, csig='struct vx_view read_text_string_view(struct cbor_parser* self, int* ec_p)',
             contract=view_contract('text string', 'B_TEXT'), aliases=AL, rules=rules('text_buffer_', 'B_TEXT')),
    FuncSpec('read_byte_string_view', P, r'byte_string_view read_byte_string_view\(std::error_code& ec\)', count=1, csig='struct vx_view read_byte_string_view(struct cbor_parser* self, int* ec_p)',
             contract=view_contract('byte string', 'B_BYTES'), aliases=AL, rules=rules('bytes_buffer_', 'B_BYTES')),
    FuncSpec('read_byte_string', P, r'void read_byte_string\(std::vector<uint8_t,byte_allocator_type>& v, std::error_code& ec\)', count=1, csig='void read_byte_string(struct cbor_parser* self, int* ec_p)',
             contract=vec_contract('B_VEC'), aliases=AL, rules=rules('NO_SUCH_BUFFER', 'B_VEC')),
]
HARNESSES = [
    Harness('read_text_string_view', 'h_read_text_string_view', enforce='read_text_string_view', method='LF', props=['C07', 'C06', 'C05', 'C03']),
    Harness('read_byte_string_view', 'h_read_byte_string_view', enforce='read_byte_string_view', method='LF', props=['C07', 'C06', 'C05', 'C03']),
    Harness('read_byte_string', 'h_read_byte_string', enforce='read_byte_string', method='LF', props=['C07', 'C06', 'C05', 'C03']),
]
