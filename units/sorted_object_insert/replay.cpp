// replay for unit sorted_object_insert: json objects over a small key alphabet; try_emplace and insert_or_assign with every possible hint (every iterator
// including end()) and without hint, for names that are present, absent-in-between, smaller than all and larger than all; compared with a std::map model.
#include <jsoncons/json.hpp>
#include "replay_util.hpp"
#include <map>
using namespace jsoncons;
int main(int argc, char** argv)
{
    if (argc < 3) return 2;
    const std::vector<std::string> keys = {"b", "d", "f", "h"}; const std::vector<std::string> names = {"a", "b", "c", "d", "e", "f", "g", "h", "i"};
    int bad = 0, total = 0; std::string first;
    for (unsigned mask = 0; mask < 16; ++mask) for (auto& name : names) for (int op = 0; op < 2; ++op) {
        std::map<std::string, int> model; json base(json_object_arg); int v = 1;
        for (size_t k = 0; k < keys.size(); ++k) if (mask & (1u << k)) { model[keys[k]] = v; base.try_emplace(keys[k], v); ++v; }
        size_t n = base.size();
        for (size_t hint = 0; hint <= n + 1; ++hint) {   // n + 1: no hint
            json j = base; std::map<std::string, int> m = model;
            if (op == 0) { m.emplace(name, 99); if (hint <= n) j.try_emplace(j.object_range().begin() + hint, name, 99); else j.try_emplace(name, 99); }
            else { m[name] = 99; if (hint <= n) j.insert_or_assign(j.object_range().begin() + hint, name, 99); else j.insert_or_assign(name, 99); }
            ++total; bool ok = j.size() == m.size(); auto it = m.begin();
            for (const auto& kv : j.object_range()) { if (it == m.end() || kv.key() != it->first || kv.value().as<int>() != it->second) { ok = false; break; } ++it; }
            if (!ok) { if (!bad) first = std::string(op ? "insert_or_assign" : "try_emplace") + " of \"" + name + "\" with hint " + (hint <= n ? std::to_string(hint) : std::string("none")) + " into " + base.to_string() + " gives " + j.to_string(); ++bad; }
        }
    }
    if (bad) VX_REPRO(bad << " of " << total << " insertions leave the object different from the map model (duplicate or misplaced key), first: " << first);
    VX_NOREPRO("all " << total << " insertions agree with the map model");
}
