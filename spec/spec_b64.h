/* S-B64: RFC 4648 section 4 (base64, Table 1) and section 5 (base64url, Table 2): the value of an alphabet character, and a decoder that is fed one
 * output character at a time and yields the decoded bytes quantum by quantum.  Not derived from jsoncons. */
#ifndef SPEC_B64_H
#define SPEC_B64_H
#include <stdint.h>
static inline int spec_b64_value(int c, int url)
{
    if (c >= 'A' && c <= 'Z') return c - 'A';
    if (c >= 'a' && c <= 'z') return c - 'a' + 26;
    if (c >= '0' && c <= '9') return c - '0' + 52;
    if (c == (url ? '-' : '+')) return 62;
    if (c == (url ? '_' : '/')) return 63;
    return -1;
}
struct spec_b64_mon { int q; uint32_t acc; int pad; int bad; };   /* characters in the open quantum, their 6-bit values, '=' seen, violation */
/* returns the number of bytes completed by this character (0 or 3) in out[] */
static inline int spec_b64_step(struct spec_b64_mon* m, int c, int url, uint8_t out[3])
{
    if (c == '=') { if (url || m->q < 2) m->bad = 1; m->pad++; if (m->q + m->pad > 4) m->bad = 1; return 0; }
    int v = spec_b64_value(c, url);
    if (v < 0 || m->pad) { m->bad = 1; return 0; }
    m->acc = (m->acc << 6) | (uint32_t)v; m->q++;
    if (m->q == 4) { out[0] = (uint8_t)(m->acc >> 16); out[1] = (uint8_t)(m->acc >> 8); out[2] = (uint8_t)m->acc; m->q = 0; m->acc = 0; return 3; }
    return 0;
}
#endif
