// replay for unit base64: byte strings of every length 0..40 with three fill patterns (and all 65536 two-byte strings) are encoded by the real
// bytes_to_base64 / bytes_to_base64url / bytes_to_base16; an independent RFC 4648 decoder must give the bytes back, base64 must be padded to a multiple of
// four and base64url unpadded; the library's own decoders must invert its encoders.
#include <jsoncons/json.hpp>
#include <jsoncons/utility/byte_string.hpp>
#include "replay_util.hpp"
using namespace jsoncons;
static bool ref_dec(const std::string& s, bool url, std::string& out)
{
    const std::string std_a = "ABCDEFGHIJKLMNOPQRSTUVWXYZabcdefghijklmnopqrstuvwxyz0123456789+/", url_a = "ABCDEFGHIJKLMNOPQRSTUVWXYZabcdefghijklmnopqrstuvwxyz0123456789-_";
    const std::string& a = url ? url_a : std_a; unsigned acc = 0; int nb = 0; size_t i = 0; out.clear();
    for (; i < s.size() && s[i] != '='; ++i) { size_t k = a.find(s[i]); if (k == std::string::npos) return false; acc = (acc << 6) | (unsigned)k; nb += 6; if (nb >= 8) { nb -= 8; out.push_back((char)((acc >> nb) & 0xff)); } }
    if (nb >= 6 || (acc & ((1u << nb) - 1)) != 0) return false;          // a dangling sextet, or pad bits that are not zero
    size_t pads = s.size() - i; for (; i < s.size(); ++i) if (s[i] != '=') return false;
    if (url) return pads == 0; return s.size() % 4 == 0 && pads == (nb == 4 ? 2u : nb == 2 ? 1u : 0u);
}
int main(int argc, char** argv)
{
    if (argc < 3) return 2;
    int bad = 0; long total = 0; std::string first;
    auto one = [&](const std::string& b) {
        const uint8_t* p = (const uint8_t*)b.data(); std::string e64, eurl, e16, d; ++total;
        bytes_to_base64(p, p + b.size(), e64); bytes_to_base64url(p, p + b.size(), eurl); bytes_to_base16(p, p + b.size(), e16);
        auto fail = [&](const std::string& w) { if (!bad) first = w + " for " + std::to_string(b.size()) + " bytes, text " + e64; ++bad; };
        if (!ref_dec(e64, false, d) || d != b) fail("base64 does not decode to the bytes"); if (!ref_dec(eurl, true, d) || d != b) fail("base64url does not decode to the bytes");
        std::string h; for (unsigned char c : b) { h.push_back("0123456789ABCDEF"[c >> 4]); h.push_back("0123456789ABCDEF"[c & 15]); } if (e16 != h) fail("base16 differs");
        std::vector<uint8_t> v; auto r = base64_to_bytes(e64.begin(), e64.end(), v); if (r.ec != conv_errc() || std::string(v.begin(), v.end()) != b) fail("base64_to_bytes does not invert");
        v.clear(); r = base64url_to_bytes(eurl.begin(), eurl.end(), v); if (r.ec != conv_errc() || std::string(v.begin(), v.end()) != b) fail("base64url_to_bytes does not invert");
        v.clear(); r = base16_to_bytes(e16.begin(), e16.end(), v); if (r.ec != conv_errc() || std::string(v.begin(), v.end()) != b) fail("base16_to_bytes does not invert"); };
    for (size_t n = 0; n <= 40; ++n) for (int pat = 0; pat < 3; ++pat) { std::string b(n, '\0'); for (size_t i = 0; i < n; ++i) b[i] = (char)(pat == 0 ? 0xff : pat == 1 ? (i * 37 + 11) : (0xfb + i)); one(b); }
    for (int x = 0; x < 65536; ++x) one(std::string{(char)(x >> 8), (char)x});
    if (bad) VX_REPRO(bad << " of " << total << " byte strings are not encoded as RFC 4648 prescribes, first: " << first);
    VX_NOREPRO("all " << total << " byte strings are encoded as RFC 4648 prescribes and decode back");
}
