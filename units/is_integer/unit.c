/* unit is_integer (C09): basic_json::is_integer<T>(), instantiated for the eight integer types of at most 64 bits; the value is its storage kind and the stored integer */
#include "vx_common.h"
/*@ENUM json_storage_kind@*/
static int vx_kind; static int64_t vx_i64; static uint64_t vx_u64; static unsigned vx_ref_calls;
static bool vx_ref_is_integer(void) { vx_ref_calls++; return nondet_bool(); }   /* the same question asked of the referenced value */
/*@GROUP instances@*/
#ifdef VX_CBMC
static void setup(void) { vx_kind = nondet_u8(); vx_i64 = nondet_i64(); vx_u64 = nondet_u64(); vx_ref_calls = 0; }
void h_is_integer_int8(void) { setup(); is_integer_int8(); }
void h_is_integer_int16(void) { setup(); is_integer_int16(); }
void h_is_integer_int32(void) { setup(); is_integer_int32(); }
void h_is_integer_int64(void) { setup(); is_integer_int64(); }
void h_is_integer_uint8(void) { setup(); is_integer_uint8(); }
void h_is_integer_uint16(void) { setup(); is_integer_uint16(); }
void h_is_integer_uint32(void) { setup(); is_integer_uint32(); }
void h_is_integer_uint64(void) { setup(); is_integer_uint64(); }
#endif
