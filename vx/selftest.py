#!/usr/bin/env python3
# MANIFEST.setup_cmd: nothing to build (python3 stdlib + installed cbmc); verify the tools are there.
import subprocess, sys, shutil
ok = True
for t in ['cbmc', 'goto-cc', 'goto-instrument', 'g++', 'python3']:
    if not shutil.which(t):
        print('missing tool', t); ok = False
if ok:
    v = subprocess.run(['cbmc', '--version'], capture_output=True, text=True).stdout.strip()
    print('cbmc', v)
sys.exit(0 if ok else 1)
